#!/venv/bin/python
"""Run the repository's pinned test-suite (command from /root/.vp/BASELINE.json) with the verification
guard OFF and compare the passing set with BASELINE.stable_pass.  exit 0 iff every stable test still passes."""
import json, os, subprocess, sys, tempfile
import xml.etree.ElementTree as ET

repo = os.environ.get("AY_REPO", "/repo")
base = json.load(open('/root/.vp/BASELINE.json')) if os.path.exists('/root/.vp/BASELINE.json') else None
env = dict(os.environ)
env.pop('SAMSUNGLABS_AWESOMEYAML_VERIF', None)
env['PYTHONPATH'] = repo
with tempfile.TemporaryDirectory() as td:
    xml = os.path.join(td, 'junit.xml')
    cmd = ['/venv/bin/python', '-m', 'pytest', '-ra', '-q', '-p', 'no:cacheprovider', '--timeout=900',
           '--continue-on-collection-errors', f'--junitxml={xml}']
    p = subprocess.run(cmd, cwd=repo, env=env, stdout=subprocess.PIPE, stderr=subprocess.STDOUT)
    passed = set()
    if os.path.exists(xml):
        for tc in ET.parse(xml).getroot().iter('testcase'):
            bad = any(ch.tag in ('failure', 'error', 'skipped') for ch in tc)
            if not bad:
                passed.add(f"{tc.get('classname')}::{tc.get('name')}")
    else:
        print(p.stdout.decode()[-3000:])
print(f'passed={len(passed)}')
if base:
    want = [t for t in base['stable_pass'] if t != '::']
    missing = [t for t in want if t not in passed]
    print(f'stable_pass={len(want)} missing={len(missing)}')
    for m in missing:
        print('  MISSING', m)
    sys.exit(1 if missing else 0)
