#!/bin/sh
# tools/seed_matrix.sh [jobs]  - sensitivity matrix: every stored seeded change against the check of its property (generative part only,
# quick tier, VERIF_SEED=0), N jobs at a time (default 3).  Writes notes/seed_matrix.txt (name, check, KILLED|SURVIVED).
jobs="${1:-3}"
cd "$(dirname "$0")/.." || exit 2
out=notes/seed_matrix.txt
: > "$out.tmp"
run_one() {
  d="$PWD/$1"; name=$(basename "$d")
  chk=$(/venv/bin/python - "$d" <<'PY'
import json, sys, os
m = json.load(open(os.path.join(sys.argv[1], 'meta.json')))
r = m.get('regression_replay', '')
print(r.split('/')[1] if r.startswith('replays/') else m.get('property', 'C20'))
PY
)
  W=$(mktemp -d /tmp/vf-mx-XXXXXX); rmdir "$W"
  git -C /repo worktree add -q --detach "$W" HEAD || { echo "$name $chk WORKTREE-FAIL"; return; }
  if git -C "$W" apply --whitespace=nowarn "$d/patch.diff" 2>/dev/null; then
    E=$(mktemp -d /tmp/vf-mxe-XXXXXX)
    # evidence and found-replays of these runs must not land in the real directories: run from a private copy of /verif
    rsync -a --exclude .git --exclude evidence --exclude 'replays/*/found' /verif/ "$E/"
    mkdir -p "$E/evidence"
    (cd "$E" && AY_REPO="$W" PYTHONPATH="$E:$W" PYTHONHASHSEED=0 PYTHONDONTWRITEBYTECODE=1 /venv/bin/python -m vf.run "$chk" --no-regress > "$E/log" 2>&1); rc=$?
    echo "$name $chk $([ $rc = 1 ] && echo KILLED || echo SURVIVED-rc$rc)"
    rm -rf "$E"
  else
    echo "$name $chk PATCH-DOES-NOT-APPLY"
  fi
  git -C /repo worktree remove --force "$W"
}
n=0
for d in seeded/*/; do
  run_one "${d%/}" >> "$out.tmp" &
  n=$((n+1))
  if [ $((n % jobs)) = 0 ]; then wait; fi
done
wait
sort "$out.tmp" > "$out"; rm -f "$out.tmp"
grep -c KILLED "$out"; grep -v KILLED "$out"
