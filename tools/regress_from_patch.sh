#!/bin/sh
# tools/regress_from_patch.sh <patch.diff> <ID> <name>
# Runs check <ID> (generative part only) against a scratch copy with the patch applied and stores the shrunk failing case
# as a regression replay replays/<ID>/<name>.json (a case that passes on the real tree and fails with the seeded change).
patch="$1"; id="$2"; name="$3"
W=$(mktemp -d /tmp/vf-mut-XXXXXX); rmdir "$W"
git -C /repo worktree add -q --detach "$W" HEAD || exit 2
git -C "$W" apply --whitespace=nowarn "$patch" || { echo "cannot apply $patch"; git -C /repo worktree remove --force "$W"; exit 2; }
cd "$(dirname "$0")/.." || exit 2
rm -rf replays/$id/found
AY_REPO="$W" ./check "$id" --no-regress > "$W.log" 2>&1
rc=$?
f=$(ls replays/$id/found/*.json 2>/dev/null | head -1)
if [ $rc = 1 ] && [ -n "$f" ]; then
  mkdir -p replays/$id; mv "$f" "replays/$id/$name.json"
  # the stored case must hold on the real tree
  if ./check "$id" --replay "replays/$id/$name.json" > /dev/null 2>&1; then echo "stored replays/$id/$name.json"; else echo "case also fails on the real tree - dropped"; rm -f "replays/$id/$name.json"; fi
else echo "no violation found (rc=$rc)"; tail -3 "$W.log"; fi
rm -rf replays/$id/found "$W.log"
git -C /repo worktree remove --force "$W"
