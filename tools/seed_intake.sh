#!/bin/sh
# tools/seed_intake.sh <ID> <name> [check-ids...]
# Confirms a seeded change produced by a sub-agent in /tmp/seed/<ID>/seed (patch.diff, demo.py, notes.md):
#   applies to /repo HEAD, baseline tests still pass, demo fails with it and passes without;
# then stores it under /verif/seeded/<name>/ and runs the named checks (default: <ID>) against it.
id="$1"; name="$2"; shift 2
checks="${*:-$id}"
src="/tmp/seed/$id/seed"
[ -f "$src/patch.diff" ] && [ -f "$src/demo.py" ] || { echo "missing deliverables in $src"; exit 2; }
W=$(mktemp -d /tmp/vf-seed-XXXXXX); rmdir "$W"
git -C /repo worktree add -q --detach "$W" HEAD || exit 2
cleanup() { git -C /repo worktree remove --force "$W" 2>/dev/null; }
# demo without the change
PYTHONPATH="$W" timeout 300 /venv/bin/python "$src/demo.py" > "$W.demo0" 2>&1; d0=$?
if ! git -C "$W" apply --whitespace=nowarn "$src/patch.diff"; then echo "patch does not apply to /repo HEAD"; cleanup; exit 2; fi
PYTHONPATH="$W" timeout 300 /venv/bin/python "$src/demo.py" > "$W.demo1" 2>&1; d1=$?
AY_REPO="$W" /verif/tools/baseline.py > "$W.base" 2>&1; b=$?
echo "demo without change: exit $d0   demo with change: exit $d1   baseline with change: exit $b ($(head -1 $W.base))"
ok=1
[ $d0 = 0 ] || { echo "  demo must pass on the unchanged tree"; tail -3 "$W.demo0"; ok=0; }
[ $d1 != 0 ] || { echo "  demo must fail with the change"; ok=0; }
[ $b = 0 ] || { echo "  baseline tests fail with the change"; cat "$W.base" | tail -5; ok=0; }
if [ $ok = 1 ]; then
  dst="/verif/seeded/$name"; mkdir -p "$dst"
  cp "$src/patch.diff" "$dst/patch.diff"; cp "$src/demo.py" "$dst/demo.py"; [ -f "$src/notes.md" ] && cp "$src/notes.md" "$dst/notes.md"
  results=""
  cd /verif
  for c in $checks; do
    AY_REPO="$W" ./check "$c" --no-regress > "$W.chk" 2>&1; rc=$?
    ev=$(grep -E "^C[0-9]+ tier" "$W.chk" | sed 's/ classes=.*//')
    echo "  check $c: rc=$rc  $ev"
    grep -E "^(HARNESS)" "$W.chk" | head -3
    if [ $rc = 1 ]; then head -c 1500 "$W.chk" | sed -n '1,25p' > "$dst/caught_by_$c.txt"; fi
    results="$results $c=$([ $rc = 1 ] && echo caught || echo missed-rc$rc)"
    rm -rf replays/$c/found
  done
  cat > "$dst/meta.json" <<META
{"property": "$id", "origin": "independent sub-agent given only the property text and a scratch worktree",
 "confirmed": "patch applies to /repo HEAD; tools/baseline.py passes with it (exit $b); demo.py exits $d0 without and $d1 with the change",
 "needs": "see notes.md",
 "quick_tier_result": "$results"}
META
  echo "stored $dst  ->$results"
fi
rm -f "$W.demo0" "$W.demo1" "$W.base" "$W.chk"
cleanup
[ $ok = 1 ]
