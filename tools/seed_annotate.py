#!/venv/bin/python
"""tools/seed_annotate.py <seed-name> <needs> [<after_strengthening> [<replay>]] - fills in meta.json of a stored seeded change."""
import json, sys
name, needs = sys.argv[1], sys.argv[2]
p = f'/verif/seeded/{name}/meta.json'
m = json.load(open(p))
m['needs'] = needs
if len(sys.argv) > 3 and sys.argv[3]:
    m['after_strengthening'] = sys.argv[3]
    m['quick_tier_result_now'] = 'caught'
if len(sys.argv) > 4:
    m['regression_replay'] = sys.argv[4]
json.dump(m, open(p, 'w'), indent=1)
print(open(p).read())
