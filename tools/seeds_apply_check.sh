#!/bin/sh
# tools/seeds_apply_check.sh - every stored seeded change must still apply to /repo HEAD (they are kept rebased)
W=$(mktemp -d /tmp/vf-chk-XXXXXX); rmdir "$W"
git -C /repo worktree add -q --detach "$W" HEAD || exit 2
bad=0
for d in /verif/seeded/*/; do
  if ! git -C "$W" apply --check --whitespace=nowarn "$d/patch.diff" 2>/dev/null; then echo "DOES NOT APPLY: $d"; bad=1; fi
done
git -C /repo worktree remove --force "$W"
[ $bad = 0 ] && echo "all $(ls -d /verif/seeded/*/ | wc -l) seeded patches apply to $(git -C /repo rev-parse --short HEAD)"
exit $bad
