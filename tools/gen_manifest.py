#!/venv/bin/python
"""Regenerates /verif/MANIFEST.json from the table below (one entry per claimed property)."""
import json
import os

HERE = os.path.dirname(os.path.dirname(os.path.abspath(__file__)))

CHECKS = {
    'C02': dict(
        technique='property-based differential testing (Hypothesis): generated stage sequences vs. a recursive-update fold over PyYAML SafeLoader data',
        text='Generated sequences of 1-5 tag-free mapping documents (collision-biased keys, kind changes, mapping-onto-list) are built with '
             'Config.build and compared, with exact types and key order, against an independent 15-line right-biased recursive update; '
             'MergeError is required exactly for invalid list indices. Exploration, not proof.',
        note='Trusts PyYAML SafeLoader as the definition of plain content and the fold as the reading of the statement.',
        design='4/C02'),
    'C01': dict(
        technique='property-based differential testing (Hypothesis): tagged document vs. PyYAML SafeLoader on its tag-erased twin, two tag placements per skeleton',
        text='Generated mapping documents (all scalar/key kinds, block/flow/literal-block, quoting styles, yaml anchors and aliases) with two independent random placements of every '
             'merge-control tag and metadata form are built with Config.build and compared (exact types, order) with what PyYAML loads from the '
             'tag-erased rendering of the same AST. Exploration, not proof.',
        note='Trusts PyYAML SafeLoader as reference and the renderer (guarded by a third witness: the generator\'s own plain value).',
        design='4/C01'),
    'C03': dict(
        technique='property-based differential testing (Hypothesis): per-leaf (priority, stage) arg-max oracle and pairwise metadata fold over generated stage histories',
        text='Histories of 2-5 stages writing subsets of a shared skeleton with !force/!weak on leaves, enclosing mappings or the root; the merged '
             'tree (Builder.build) and the evaluated config must carry, per leaf, the value of the highest-priority / latest writer, and the '
             'surviving nodes the union of all writers\' metadata with the winner\'s values. The oracle is independent of any merge model.',
        note='In the modelled family lists are atomic values. A fourth of the cases is the "wild" family (lists in lists, lists against mappings '
             'and function nodes, every mix of priority and !del/!merge tags, 2-3 stages), checked with a validity predicate instead of a model: '
             'every value the evaluated config or a recorded call holds was written by a stage, and none stands twice.',
        design='4/C03'),
    'C04': dict(
        technique='property-based differential testing (Hypothesis): five sub-domains with direct oracles (exact content, strictly-higher-priority survivors, key-/index-wise combination, !clear / value-less !del, protected list elements as a validity predicate)',
        text='Older tree x newer document with one focus node at depth 0-3 along existing keys (key names biased to coincide with ancestor '
             'names): deleting focus leaves exactly its content (pruned !call nodes must not run), protected older entries survive exactly when '
             'strictly higher in priority, !merge combines key-/index-wise under the documented flag inheritance, !clear empties, value-less !del removes.',
        note='Direct per-sub-domain oracles instead of a full merge model; overlaps the statement leaves open are skipped and counted. '
             'Sub-check (e) asserts the exact positions of protected and newer list elements (the former open finding there is repaired), also with '
             'container elements and with a !del index mapping (negative keys, forced values) as the newer value.',
        design='4/C04'),
    'C05': dict(
        technique='property-based metamorphic testing (Hypothesis): build(D_i) vs build({k..: D_i}) vs build with unrelated sibling content vs build with keys renamed injectively, plus a frame relation against build(D_1..D_n-1)',
        text='Generated merge sequences over priority/!del/!merge/!new/!notnew tags (optionally with a yaml alias of a container) are built unwrapped, wrapped under a key chain drawn from the '
             'documents\' own key alphabet, wrapped with an unrelated sibling sequence, and with string keys renamed injectively; results (or failure classes) must correspond, and paths the last '
             'document neither mentions nor has below a deleting node must be unchanged.',
        note='Relation between runs of the implementation; documented exception for an explicit !del stage root with an empty result.',
        design='4/C05'),
    'C06': dict(
        technique='property-based metamorphic testing with file-system layouts and fault injection (Hypothesis): random split plans of one document sequence over temp directories, deleted files, decoy files, !path reference points',
        text='The same 2-5 documents are built as raw sources and through a random recursive split plan (separate files, multi-document files, '
             '!include [..], several includes, nesting to depth 3) laid out over sub-directories with includer-relative, cwd-only and conflicting '
             'names; key: !include [..] is compared with the merged files under the key; deleting files must give a PreprocessError naming them; '
             '!path nodes of every reference point in files reached through include chains must denote the location computed from the file itself.',
        note='One working directory per case; for missing files the error must name all missing files of at least one include node.',
        design='4/C06'),
    'C07': dict(
        technique='property-based testing (Hypothesis): provenance invariant over a recorder log (unique ids per target/code, unique markers per literal) across generated merge histories with safe/unsafe sources, includes and !unsafe tags',
        text='Histories of 1-4 stages (direct or through !include, each with a source safe flag) writing function, scalar-dynamic and data slots '
             'with argument/name overrides, placeholders and deletions, a few taint sources per case and permuted key order. Violation iff executed '
             'code was defined by tainted content, or a tainted marker reached a call argument / a name resolved by evaluated code / a partial; '
             'a failing build must stem from UnsafeError. A second, model-free witness over the merged tree: an executed call must not be fed through any node '
             '(argument, every hop of a reference chain, content of the target) that the implementation itself flags unsafe. One-directional by design (never asserts that safe nodes must run).',
        note='Taint is syntactic (own document + source + including content). executed-clean class in evidence shows the campaign is not vacuous. Unsafe dynamic nodes of the merged tree are also moved into a new mapping through the node API and must still be refused.',
        design='4/C07'),
    'C08': dict(
        technique='property-based differential testing (Hypothesis): path-existence predicate over the config built so far + recursive-update fold, for !notnew documents and generated command-line overrides',
        text='Base configs with derived overriding documents carrying !notnew/!new on arbitrary nodes, and command-line strings built from existing '
             'or mutated paths (typos, bad indices, extra components); success is required exactly when every restricted path exists, the result '
             'must equal the fold (frame condition by full comparison), failures must be MergeError naming a missing path.',
        note='Command-line values limited to scalars and flow lists, optionally with a tag of their own; identifier keys; !notnew / !new / !force '
             'typed in front of the name (only !new may create: then the result is compared with the base plus the path).',
        design='4/C08'),
    'C14': dict(
        technique='property-based differential testing (Hypothesis): AST-level fold with !required as opaque leaf over generated override/delete histories, recorder log for "nothing evaluated"',
        text='Trees with !required at top level, in nested mappings, list elements and call/bind arguments, and 0-3 derived later stages that '
             'leave/override/delete them; the build must fail with the ValueError listing exactly the surviving paths and with an empty call log, '
             'and succeed otherwise.',
        note='Later stages never put a string onto a function node and keep call arguments string-keyed.',
        design='4/C14'),
    'C16': dict(
        technique='property-based differential testing (Hypothesis): list/move model over plain data applied in document order + fold frame, over generated operator histories',
        text='Histories of 1-3 stages with !append/!extend/!prev at unrelated paths (nested, sources inside lists, missing and non-list targets) '
             'against a plain-data model; every other path must equal the fold. Operators aimed at elements of lists and subtrees moved onto '
             'existing mappings are part of the domain (the former open finding there is repaired).',
        note='!append in a first document not generated.',
        design='4/C16'),
    'C17': dict(
        technique='model-based property testing (Hypothesis): generated operation histories applied to node containers and to plain python dict/list, whole-tree invariants after every step',
        text='Histories of up to 25 public container operations (all mutators of mappings and lists, in/out-of-range and negative indices, '
             'existing/new/underscore keys, nested values) on interpretively addressed containers of a random tree; after every step both views '
             'of every container agree in keys, order and identity, list children are numbered 0..n-1, content equals the model, every walked '
             'node is found again by its path, paths round-trip through text, evaluation order equals the model; model errors must be node errors.',
        note='Plain-data values only (no node shared between two places); rename_child on mappings only.',
        design='4/C17'),
    'C09': dict(
        technique='property-based testing (Hypothesis) against a reference-graph model: identity (is) of aliases, EvalError for dangling/self/cyclic graphs, deterministic step budget (sys.settrace line counter) for termination',
        text='Generated reference graphs (chains to length 30, fan-in, forward/backward, into and out of mappings, lists and call arguments, '
             'dangling, self, pure and containment cycles) over data spread on 1-3 documents; well-formed graphs must alias the very same object, '
             'ill-formed ones must raise EvalError, and every build must finish within 5,000,000 traced line events.',
        note='Termination is bounded liveness: a step budget ~40x the largest terminating case; paths through references are not generated.',
        design='4/C09'),
    'C10': dict(
        technique='property-based testing (Hypothesis): history invariant over a recorder log (exactly-once, no run of overwritten nodes), identity of results, key-permutation metamorphic relation',
        text='Configs with side-effecting !call/!eval producers and xref / call-argument / eval consumers, built in the written and in a permuted '
             'key order, with 0-2 later stages replacing or deleting producers or their containers; every surviving producer is logged exactly once, '
             'no other runs, every consumer received the object that is in the final config, both layouts evaluate equal.',
        note='Survivors are computed from the plain fold, not read from the implementation.',
        design='4/C10'),
    'C11': dict(
        technique='property-based testing (Hypothesis): validity walk of the result mirrored against the merged tree + snapshot invariants over generated histories of re-evaluations and mutations',
        text='Merged trees (1-3 tagged stages, dynamic leaves of every kind) are evaluated; the result is walked for leaked nodes (also inside '
             'partials and tuples), Bunch-ness and cfg.a is cfg[a] for mapping nodes, exact list / builtin scalar types and mirrored keys; then a '
             'history of re-evaluations of cfg.ayns.source, mutations of the evaluated config and deep copies must leave the source snapshot '
             '(structure + public flags) unchanged and every fresh evaluation equal to the first.',
        note='Function / path nodes live under dedicated keys (merging onto them is C13 territory); merge-failing sequences are skipped and counted.',
        design='4/C11'),
    'C12': dict(
        technique='grammar-based differential testing (Hypothesis): generated python programs and f-strings vs CPython exec/eval in the same process, over build histories; crash guard for interpreter death',
        text='Programs from a grammar covering expressions, def/closures/lambdas, comprehensions, branches, loops, try/finally, with, imports, '
             'classes, global and >255 names, over four name pools with shadowing; f-strings in all spellings; with/without file name; 1-3 builds '
             'in one process with different values and a namespace-survival probe. Values (or exception classes through the cause chain) must equal '
             'native python; a dying interpreter is a violation whose replay is the case being run.',
        note='No ";" in code (documented quirk); integer-typed programs.',
        design='4/C12'),
    'C13': dict(
        technique='property-based differential testing (Hypothesis): stated binding rule + CPython binding of generated signatures, and a (target,args) state machine for merge histories',
        text='Targets with generated signatures (positional-only .. **kwargs), argument sets with prefix/gap int keys, string keys, duplicates, '
             'list/scalar/value-less forms and dynamic values; 0-4 merge steps (mapping, list, string, other/same function node, with and without '
             '{{delete: False}}); !call results / !bind partials must equal what the rule + native call give, errors must be EvalError with the native cause.',
        note='Gap indices on keyword-only parameters, same-name strings and call<->bind changes are outside the statement and not generated.',
        design='4/C13'),
    'C18': dict(
        technique='property-based round-trip and substitution testing (Hypothesis): parse -> dump -> parse of generated full-vocabulary documents, text fixpoint, per-node user metadata, substitution in generated merge contexts, evaluation',
        text='Documents over the full tag vocabulary (flags and metadata on every node kind incl. null, awkward strings, multi-line code, all '
             'dynamic and structural kinds) are parsed, dumped and re-parsed: the second dump must equal the first, user metadata must be equal '
             'at every path, the original and the re-parsed document must give the same merged tree (or the same failure) between 0-2 random '
             'tagged stages before and after, and evaluate to the same value.',
        note='Node kinds may legitimately change (an f-string node is dumped as the equivalent eval node); compared are behaviour and metadata.',
        design='4/C18'),
    'C19': dict(
        technique='property-based round-trip and substitution testing (Hypothesis): deepcopy / pickle copies of generated parsed and merged trees compared node by node, substituted in merges, evaluated, and mutated',
        text='(A) parsed documents over the full tag vocabulary, (B) trees merged from 1-3 documents: copies by deepcopy and by pickle must have '
             'the same node kinds, content, priority, safety, targets/reference points/file names and metadata at every path, share no node '
             'object, merge identically as older and as newer stage against random tagged stages, evaluate identically, and stay unchanged '
             'when the other tree is mutated.',
        note='Public flags (priority, safety, delete, explicit_delete, allow_new) are compared node by node and behaviour through merge substitution; ill-formed originals are skipped.',
        design='4/C19'),
    'C20': dict(
        technique='property-based testing over generated schedules (Hypothesis) under a deterministic line-level thread scheduler (sys.settrace + condition variable): concurrent vs sequential observations',
        text='2-3 threads each build from their own file (includes, !unsafe markers, failing inputs) with their own safe flag; a generated '
             'schedule of (thread, quantum) pairs - random prefix, repeated fine-grained pattern, drawn round-robin tail - decides after how many '
             'line events inside the package control moves. Every thread must observe exactly what it observes alone: per node path, source '
             'file, safety and value, or the same error type, text and cause chain.',
        note='Interleavings are sampled, each one exact and replayable; switches only at python line events inside awesomeyaml (the stated granularity).',
        design='4/C20'),
    'C15': dict(
        technique='property-based metamorphic testing (Hypothesis): five relations (determinism, idempotence, empty-neutral, key permutation, flag-neutral) per generated sequence',
        text='Each generated sequence over priority/!del/!merge tags is rebuilt twice, with the last document repeated, with {} inserted at every '
             'position, with every mapping\'s keys permuted and with !unsafe/!new markers added on random nodes; plain(Builder.build()) must agree. '
             'One open known finding (list pre-filter, idempotence only) is attributed by a root-cause probe and reported as KNOWN-FINDING.',
        note='Relations between runs of the implementation; three open known findings: list-prefilter-partial-survivor (idempotence failures only, in builds where the root-cause probe saw a partial list removal), del-rewritten-key-order (idempotence failures only, when the data are equal and just the key order differs after a repeated !del mapping) and mapping-onto-pruned-list (key-permutation failures only, in builds where the probe saw a list index being clipped).',
        design='4/C15'),
}

PENDING = {}


def main():
    props = [json.loads(l) for l in open(os.path.join(HERE, 'properties.jsonl'))]
    checks = []
    na = []
    for p in props:
        pid = p['id']
        c = CHECKS.get(pid)
        if c is None:
            na.append({'property_id': pid, 'reason': PENDING.get(pid, 'check not built yet in this round (planned, see DESIGN.md section 4)')})
            continue
        checks.append({
            'property_id': pid,
            'quick_cmd': f'./check {pid} --tier quick',
            'thorough_cmd': f'./check {pid} --tier thorough',
            'evidence_file': f'evidence/{pid}.json',
            'replay_cmd_template': f'./check {pid} --replay {{path}}',
            'engine': 'vf',
            'level_claimed': {'category': 'exploration', 'text': c['text'], 'design_ref': 'DESIGN.md section ' + c['design']},
            'level_note': c['note'],
            'technique': c['technique'],
        })
    man = {
        'version': 1,
        'setup_cmd': './setup.sh',
        'hooks': {
            'guard': 'SAMSUNGLABS_AWESOMEYAML_VERIF',
            'enable': 'no hooks are compiled into the repository: checks import awesomeyaml from /repo (PYTHONPATH) and observe it through the public API, '
                      'recording callables, sys.settrace and sys.modules, plus three probes that wrap methods of the node classes from outside (vf/probes.py: used only to attribute violations to open known findings and to skip one relation where two mapping keys spell one list element); the wrapper exports SAMSUNGLABS_AWESOMEYAML_VERIF=1 for uniformity only',
            'baseline_off_cmd': 'tools/baseline.py',
            'source_commits': [],
            'add_only': True,
        },
        'engines': [{'name': 'vf', 'path': 'vf/', 'serves_properties': sorted(CHECKS),
                     'kind_free_text': 'Hypothesis-driven property-based testing framework: sharded generation, explicit oracles '
                                       '(reference models, metamorphic relations, history invariants), shrinking to JSON replay files'}],
        'checks': checks,
        'notes': 'All checks: ./check <ID> [--tier quick|thorough] [--replay FILE]; honour VERIF_SEED; exit 2 = harness problem (never a violation). '
                 'Repairs of genuine defects are fix: commits in /repo, listed in known_findings.txt.',
        'not_applicable': na,
    }
    with open(os.path.join(HERE, 'MANIFEST.json'), 'w') as f:
        json.dump(man, f, indent=1)
        f.write('\n')
    print(f'{len(checks)} checks, {len(na)} not claimed')


if __name__ == '__main__':
    main()
