#!/venv/bin/python
"""Regenerates /verif/MANIFEST.json from the table below (one entry per claimed property)."""
import json
import os

HERE = os.path.dirname(os.path.dirname(os.path.abspath(__file__)))

CHECKS = {
    'C02': dict(
        technique='property-based differential testing (Hypothesis): generated stage sequences vs. a recursive-update fold over PyYAML SafeLoader data',
        text='Generated sequences of 1-5 tag-free mapping documents (collision-biased keys, kind changes, mapping-onto-list) are built with '
             'Config.build and compared, with exact types and key order, against an independent 15-line right-biased recursive update; '
             'MergeError is required exactly for invalid list indices. Exploration, not proof.',
        note='Trusts PyYAML SafeLoader as the definition of plain content and the fold as the reading of the statement.',
        design='4/C02'),
}

PENDING = {}


def main():
    props = [json.loads(l) for l in open(os.path.join(HERE, 'properties.jsonl'))]
    checks = []
    na = []
    for p in props:
        pid = p['id']
        c = CHECKS.get(pid)
        if c is None:
            na.append({'property_id': pid, 'reason': PENDING.get(pid, 'check not built yet in this round (planned, see DESIGN.md section 4)')})
            continue
        checks.append({
            'property_id': pid,
            'quick_cmd': f'./check {pid} --tier quick',
            'thorough_cmd': f'./check {pid} --tier thorough',
            'evidence_file': f'evidence/{pid}.json',
            'replay_cmd_template': f'./check {pid} --replay {{path}}',
            'engine': 'vf',
            'level_claimed': {'category': 'exploration', 'text': c['text'], 'design_ref': 'DESIGN.md section ' + c['design']},
            'level_note': c['note'],
            'technique': c['technique'],
        })
    man = {
        'version': 1,
        'setup_cmd': './setup.sh',
        'hooks': {
            'guard': 'SAMSUNGLABS_AWESOMEYAML_VERIF',
            'enable': 'no hooks are compiled into the repository: checks import awesomeyaml from /repo (PYTHONPATH) and observe it through the public API, '
                      'recording callables, sys.settrace and sys.modules; the wrapper exports SAMSUNGLABS_AWESOMEYAML_VERIF=1 for uniformity only',
            'baseline_off_cmd': 'tools/baseline.py',
            'source_commits': [],
            'add_only': True,
        },
        'engines': [{'name': 'vf', 'path': 'vf/', 'serves_properties': sorted(CHECKS),
                     'kind_free_text': 'Hypothesis-driven property-based testing framework: sharded generation, explicit oracles '
                                       '(reference models, metamorphic relations, history invariants), shrinking to JSON replay files'}],
        'checks': checks,
        'notes': 'All checks: ./check <ID> [--tier quick|thorough] [--replay FILE]; honour VERIF_SEED; exit 2 = harness problem (never a violation). '
                 'Repairs of genuine defects are fix: commits in /repo, listed in known_findings.txt.',
        'not_applicable': na,
    }
    with open(os.path.join(HERE, 'MANIFEST.json'), 'w') as f:
        json.dump(man, f, indent=1)
        f.write('\n')
    print(f'{len(checks)} checks, {len(na)} not claimed')


if __name__ == '__main__':
    main()
