#!/venv/bin/python
"""Run every tests/yaml_files/**/*_test.yaml fixture of the repository, one per process (one of them
segfaults on the pinned tree), and print pass/fail counts.  Development aid, not a registered check."""
import glob, os, subprocess, sys
from concurrent.futures import ThreadPoolExecutor

repo = os.environ.get('AY_REPO', '/repo')
files = sorted(glob.glob(os.path.join(repo, 'tests/yaml_files/**/*_test.yaml'), recursive=True))
code = r'''
import sys, unittest
sys.path.insert(0, %r)
from tests.yaml_files_test import YamlFileTest
T = YamlFileTest.make_test_case_type(test_file=sys.argv[1], class_arg='x')
r = unittest.TextTestRunner(verbosity=0, stream=open('/dev/null','w')).run(unittest.defaultTestLoader.loadTestsFromTestCase(T))
sys.exit(0 if r.wasSuccessful() else 1)
''' % repo

def run(f):
    p = subprocess.run(['/venv/bin/python', '-c', code, f], cwd=repo, stdout=subprocess.PIPE, stderr=subprocess.STDOUT,
                       env={**os.environ, 'PYTHONPATH': repo})
    return f, p.returncode

with ThreadPoolExecutor(16) as ex:
    res = list(ex.map(run, files))
bad = [(f, rc) for f, rc in res if rc != 0]
print(f'fixtures={len(res)} pass={len(res)-len(bad)} fail={len(bad)}')
for f, rc in bad:
    print('  FAIL', os.path.relpath(f, repo), 'rc=', rc)
sys.exit(1 if bad and '--strict' in sys.argv else 0)
