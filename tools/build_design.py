#!/usr/bin/env python3
"""Re-assembles DESIGN.md: the original per-property design text (kept in notes/design_round0.md) with the
amended sections of notes/design_parts/ and tables generated from seeded/*/meta.json."""
import glob, json, os, re, sys
HERE = os.path.dirname(os.path.dirname(os.path.abspath(__file__)))
P = os.path.join(HERE, 'notes', 'design_parts')
old = open(os.path.join(HERE, 'notes', 'design_round0.md')).read()
sys.path.insert(0, P)
from asbuilt import ASBUILT

def section(text, start_pat, end_pat):
    a = re.search(start_pat, text, re.M).start()
    b = re.search(end_pat, text[a + 5:], re.M)
    return a, (a + 5 + b.start()) if b else len(text)

def rd(name):
    return open(os.path.join(P, name)).read()

out = old
# header + contents (everything before section 1)
a = re.search(r'^## 1\. ', out, re.M).start()
out = rd('header.md') + out[a:]
# section 2
a, b = section(out, r'^## 2\. Architecture', r'^## 3\. ')
out = out[:a] + rd('sec2.md') + out[b:]
# 3.2
a, b = section(out, r'^### 3\.2 ', r'^### 3\.3 ')
out = out[:a] + rd('sec32.md') + out[b:]
# 3.5
a, b = section(out, r'^### 3\.5 ', r'^### 3\.6 ')
out = out[:a] + rd('sec35.md') + out[b:]
# as-built notes per property
for pid, note in ASBUILT.items():
    a, b = section(out, rf'^### {pid} ', r'^(### C\d\d |---------)')
    body = out[a:b].rstrip('\n')
    out = out[:a] + body + f'\n*As built.* {note}\n\n' + out[b:]
# section 5
a, b = section(out, r'^## 5\. ', r'^## 6\. ')
out = out[:a] + rd('sec5.md') + out[b:]
# section 7 with generated seed table
rows = []
for d in sorted(glob.glob(os.path.join(HERE, 'seeded', '*', 'meta.json'))):
    m = json.load(open(d))
    name = os.path.basename(os.path.dirname(d))
    res = m.get('quick_tier_result_now') or m.get('quick_tier_result', m.get('ran', ''))
    first = m.get('quick_tier_result', '').strip()
    note = m.get('after_strengthening', '')
    what = m.get('change', '')
    notes_file = os.path.join(os.path.dirname(d), 'notes.md')
    if not what and os.path.exists(notes_file):
        txt = open(notes_file).read().strip().split('\n')
        what = next((l.strip('# *-').strip() for l in txt if len(l.strip()) > 25), '')[:160]
    lead = '**no longer a behaviour change:** ' if m.get('neutralised') else '**other check:** ' if m.get('caught_by_other_check') else '**gap:** ' if m.get('not_caught') else '**strengthened:** '
    rows.append(f"| `{name}` | {m['property']} | {what} | {first or res} | {(lead + note) if note else ''} |")
table = '| seeded change | property | what it does | quick tier, first attempt | follow-up |\n|---|---|---|---|---|\n' + '\n'.join(rows) + '\n'
a, b = section(out, r'^## 7\. ', r'^## 8\. ')
out = out[:a] + rd('sec7.md').replace('@@SEED_TABLE@@', table) + out[b:]
# section 9
a, b = section(out, r'^## 9\. ', r'\Z')
out = out[:a] + rd('sec9.md')
REPL = [
 ("The design phase already confirmed by hand-run random search that these oracles separate the\npinned tree from a repaired one: e.g. the clean-room merge model disagrees with `/repo` on\n17 % of 3 000 random tagged stage sequences and on 0 of 16 000 against the scratch copy with\nfour small repairs (R1, R2, R3, R8 of §5), which is the kind of evidence unit tests cannot produce.",
  "The built checks confirmed it: started on the pinned tree, every one of the twenty campaigns except C08, C13, C14\nand C20 ended in a genuine violation within its first minutes, and each repair (section 5) let the search go on to\nthe next, deeper one - evidence a finite hand-written suite cannot produce."),
 ("### 3.4 Recording targets (`recorders.py`, importable as `vfrec`)", "### 3.4 Recording targets (`/verif/vfrec.py`, importable as `vfrec`)"),
 ("* C07 asserts only \"tainted never runs / is never consumed\", never \"safe must run\".",
  "* C07 asserts only \"tainted never runs / is never consumed\", never \"safe must run\".\n\nAdded while building (each met as a false alarm of a first version of a check and corrected in the machinery):\n\n"
  "* plain strings merged **onto a function node** rename its target by the C13 table, and\n  mappings / lists merged onto it update its arguments: generators of C07, C10, C11, C14 keep function nodes away from such\n  collisions (dedicated keys or argument names) instead of treating the resulting evaluation errors as violations. (At first this\n  was extended to `!xref` / `!eval` / `!import` / f-string nodes, whose classes derive from `str` - three sub-agents pointed out that\n  the table says \"str\", and that one turned out to be a defect, R54. An avoided collision can hide a defect: three more\n  exclusions of this kind were withdrawn in the end - gap indices on keyword-only parameters in C13 (R48), aliased nodes below\n  differently flagged parents in C18 / C19 (R40), an explicit `!del` in front of a falsy scalar in C04 (R52);)\n"
  "* a protected older *list* under a newer mapping (C04b): index addressing is validated before priorities are looked at;\n  a list focus with protected mapping entries; both skipped and counted;\n"
  "* node *kinds* are not compared across dump→parse (C18: an f-string node is dumped as the equivalent eval node) and function\n  targets are compared by name, never by `repr()` (C19);\n"
  "* `{{…}}` metadata on `!path:abs(/x)` (the tag characters `/` are outside the `{{` rewriting) and strings containing `{{` (C01, C11);\n"
  "* mapping-onto-list keys that spell the same index twice (`1` and `-2`) in the key-permutation relation of C15;\n"
  "* originals whose containers are already inconsistent after a merge promotion were skipped by C19 - until a sub-agent's side note showed the inconsistency to be a defect of its own (R35); they are violations now;\n"
  "* C06 missing files: only the first include node with missing files is ever reached, so \"names every missing file\" is\n  asserted per include node;\n"
  "* found by the thorough tiers: an override mapping that addresses one list element twice (`{1: x, -1: y}`, C08), a referenced\n  container replaced by a later stage (dangling references, C10), two premerge operators aimed at one list (C16), a middle stage\n  overwriting the key the focus path runs through (C04b), block scalars inside flow collections (renderer, C01);\n"
  "* the model-free route witness of C07 is keyed by the target a call logs, and a target can stand in two function nodes: merging a\n  function node with another target onto a place whose node is also used through a yaml alias leaves the other place with a node\n  of its own, carrying the new target and no arguments (thorough run 9; the call that ran there had been given nothing unsafe). The\n  witness now speaks only when every node with that target has an unsafe route. (What the merge does to the aliased place is the\n  sharing of aliased function nodes; that the other place was left with a call nobody wrote turned out to be a defect of its own, R62.)\n"
  "* a document in which two keys spell one list element (`0` and `-2` on a list of two) writes that element twice; C15 had skipped the key\n  permutation for such documents from the start, thorough run 9 met the same thing under repeat-last (`{-2: !merge {a: ~}, 0: [false]}`: the\n  second pass merges the mapping onto the list the first pass left - a MergeError). Skipped and labelled there too;\n"
  "* a slot whose container kind changes between stages (list, then mapping) in the C07 layout - met again in the last thorough run after\n  R44 had made `!del {}` remove a function node: the C07 layout now knows that the key is gone after such a stage;\n"
  "* C17 compared the *types* of path components after the text round trip: the components of a tree loaded from yaml are scalar nodes\n  (int / str subclasses), the kinds are compared now;\n"
  "* the runner itself: shards wrote to pipes that the parent read one after the other, so a shard printing more than a pipe holds\n  (warnings of the property library about an oversized strategy, in the event) stalled until its turn - thorough runs took an hour\n  per property until the output went to files."),
 ("`hypothesis.fuzz_one_input` could drive C01/C18 later; not planned.", "`hypothesis.fuzz_one_input` could drive C01/C18; not used."),
]
for a_, b_ in REPL:
    if a_ not in out:
        print('WARNING: replacement anchor not found:', a_[:60])
    out = out.replace(a_, b_)
open(os.path.join(HERE, 'DESIGN.md'), 'w').write(out)
print('DESIGN.md written,', len(out.split('\n')), 'lines')
