#!/bin/sh
# tools/regress_from_revert.sh <repo-commit> <ID> <name>
# Runs check <ID> against a scratch copy with <commit> reverted and stores the shrunk failing case as a regression replay.
c="$1"; id="$2"; name="$3"
W=$(mktemp -d /tmp/vf-mut-XXXXXX); rmdir "$W"
git -C /repo worktree add -q --detach "$W" HEAD || exit 2
git -C /repo diff "$c"~1 "$c" | git -C "$W" apply -R --whitespace=nowarn - || { echo "cannot revert $c"; git -C /repo worktree remove --force "$W"; exit 2; }
cd "$(dirname "$0")/.." || exit 2
rm -rf replays/$id/found
AY_REPO="$W" ./check "$id" --no-regress > "$W.log" 2>&1
rc=$?
f=$(ls replays/$id/found/*.json 2>/dev/null | head -1)
if [ $rc = 1 ] && [ -n "$f" ]; then mkdir -p replays/$id; mv "$f" "replays/$id/$name.json"; echo "stored replays/$id/$name.json"; else echo "no violation found (rc=$rc)"; tail -3 "$W.log"; fi
rm -rf replays/$id/found "$W.log"
git -C /repo worktree remove --force "$W"
