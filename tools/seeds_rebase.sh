#!/bin/sh
# tools/seeds_rebase.sh - re-creates, by a 3-way merge, every stored seeded patch that no longer applies to /repo HEAD
# (the pre-images named in the patches are blobs of earlier /repo commits).  Reports what it could not merge.
W=$(mktemp -d /tmp/vf-reb-XXXXXX); rmdir "$W"
git -C /repo worktree add -q --detach "$W" HEAD || exit 2
for d in /verif/seeded/*/; do
  if git -C "$W" apply --check --whitespace=nowarn "$d/patch.diff" 2>/dev/null; then continue; fi
  if git -C "$W" apply -3 --whitespace=nowarn "$d/patch.diff" >/dev/null 2>&1 && ! git -C "$W" diff --name-only --diff-filter=U | grep -q .; then
    git -C "$W" diff HEAD > "$d/patch.diff.new"
    if [ -s "$d/patch.diff.new" ]; then mv "$d/patch.diff.new" "$d/patch.diff"; echo "rebased: $(basename $d)"; else rm -f "$d/patch.diff.new"; echo "EMPTY after merge: $(basename $d)"; fi
  else
    echo "CONFLICT: $(basename $d)"
  fi
  git -C "$W" reset -q --hard HEAD; git -C "$W" clean -fdq
done
git -C /repo worktree remove --force "$W"
