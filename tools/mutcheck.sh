#!/bin/sh
# Sensitivity aid (not a registered check).
#   tools/mutcheck.sh revert <repo-commit> <ID> [tier]     run check <ID> against a scratch copy of /repo with <commit> reverted
#   tools/mutcheck.sh patch  <patch.diff>  <ID> [tier]     run check <ID> against a scratch copy of /repo with the patch applied
# Expects the check to exit 1.  The scratch worktree is removed afterwards.
mode="$1"; what="$2"; id="$3"; tier="${4:-quick}"
W=$(mktemp -d /tmp/vf-mut-XXXXXX)
rmdir "$W"
git -C /repo worktree add -q --detach "$W" HEAD || exit 2
if [ "$mode" = revert ]; then
  git -C /repo diff "$what"~1 "$what" | git -C "$W" apply -R --whitespace=nowarn - || { echo "cannot revert $what"; git -C /repo worktree remove --force "$W"; exit 2; }
else
  git -C "$W" apply --whitespace=nowarn "$what" || { echo "cannot apply $what"; git -C /repo worktree remove --force "$W"; exit 2; }
fi
cd "$(dirname "$0")/.." || exit 2
AY_REPO="$W" ./check "$id" --tier "$tier" $MUT_ARGS > "$W.log" 2>&1
rc=$?
grep -E "^(VIOLATION|KNOWN-FINDING|HARNESS)" "$W.log" | cut -c1-200
grep -E "^C[0-9]+ tier" "$W.log" | cut -c1-120
echo "rc=$rc ($mode $what on $id: $([ $rc = 1 ] && echo KILLED || echo SURVIVED))"
git -C /repo worktree remove --force "$W"
rm -f "$W.log"
rm -rf replays/$id/found
[ $rc = 1 ]
