"""Recording targets for generated documents (importable as `vfrec`): every call is logged, results are plain data."""
import sys

LOG = []


def reset():
    LOG.clear()


def _make_call(n):
    def call(*args, **kwargs):
        LOG.append(('call', n, args, dict(kwargs), [id(a) for a in args] + [id(v) for v in kwargs.values()]))
        return {'called': n, 'args': list(args), 'kw': dict(kwargs)}
    call.__name__ = f'call_{n}'
    call.__qualname__ = f'call_{n}'
    call.__module__ = 'vfrec'
    return call


_cache = {}


def note(ident, *values):
    LOG.append(('note', ident, values, {}, [id(v) for v in values]))
    return {'noted': ident, 'values': list(values)}


def ident(x):
    return x


def __getattr__(name):
    if name.startswith('call_') and name[5:].isdigit():
        f = _cache.get(name)
        if f is None:
            f = _cache[name] = _make_call(int(name[5:]))
        return f
    raise AttributeError(name)


def calls():
    return [e[1] for e in LOG if e[0] == 'call']
