"""Recording targets for generated documents (importable as `vfrec`): every call is logged, results are plain data."""
import sys

LOG = []


def reset():
    LOG.clear()


def _make_call(n):
    def call(*args, **kwargs):
        LOG.append(('call', n, args, dict(kwargs), [id(a) for a in args] + [id(v) for v in kwargs.values()]))
        for v in list(args) + list(kwargs.values()):
            if callable(v) and getattr(v, '__name__', '') == '<lambda>':
                v()         # a target that runs the callables it is given (their free names are resolved only now)
        return {'called': n, 'args': list(args), 'kw': dict(kwargs)}
    call.__name__ = f'call_{n}'
    call.__qualname__ = f'call_{n}'
    call.__module__ = 'vfrec'
    return call


_cache = {}


def note(ident, *values):
    LOG.append(('note', ident, values, {}, [id(v) for v in values]))
    return {'noted': ident, 'values': list(values)}


def ident(x):
    return x


def __getattr__(name):
    if name.startswith('call_') and name[5:].isdigit():
        f = _cache.get(name)
        if f is None:
            f = _cache[name] = _make_call(int(name[5:]))
        return f
    raise AttributeError(name)


def calls():
    return [e[1] for e in LOG if e[0] == 'call']


# ---- functions with generated signatures (C13): name sig_<posonly>_<poskw>_<ndefaults>_<kwonly>_<varargs>_<varkw>[_<tag>]

def sig_params(name):
    parts = name.split('_')
    po, pk, nd, ko, va, vk = (int(x) for x in parts[1:7])
    return po, pk, nd, ko, bool(va), bool(vk)


def _make_sig(name):
    po, pk, nd, ko, va, vk = sig_params(name)
    pos = [f'a{i}' for i in range(po)] + [f'b{i}' for i in range(pk)]
    nd = min(nd, len(pos))
    params = []
    for i, p in enumerate(pos):
        d = f'={100 + i}' if i >= len(pos) - nd else ''
        params.append(p + d)
        if po and i == po - 1:
            params.append('/')
    if va:
        params.append('*args')
    elif ko:
        params.append('*')
    for i in range(ko):
        params.append(f'k{i}={200 + i}' if i % 2 else f'k{i}')
    if vk:
        params.append('**kw')
    names = pos + [f'k{i}' for i in range(ko)]
    entries = [f'{n!r}: {n}' for n in names] + (["'args': list(args)"] if va else []) + (["'kw': dict(kw)"] if vk else [])
    body = '{' + ', '.join(entries) + '}'
    src = f'def {name}({", ".join(params)}):\n    LOG.append(("sig", {name!r}))\n    return {body}\n'
    ns = {'LOG': LOG}
    exec(src, ns)
    f = ns[name]
    f.__module__ = 'vfrec'
    return f


_old_getattr = __getattr__


def __getattr__(name):        # noqa: F811
    if name.startswith('sig_'):
        f = _cache.get(name)
        if f is None:
            f = _cache[name] = _make_sig(name)
        return f
    return _old_getattr(name)


# ---- import targets (C07): `!import vfrec.imp_<n>` logs the import

class _Imported:
    def __init__(self, n):
        self.n = n

    def __repr__(self):
        return f'<imported {self.n}>'


_old_getattr2 = __getattr__


def __getattr__(name):        # noqa: F811
    if name.startswith('imp_') and name[4:].isdigit():
        LOG.append(('import', int(name[4:]), (), {}, []))
        return _Imported(int(name[4:]))
    return _old_getattr2(name)
