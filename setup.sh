#!/bin/sh
# MANIFEST.setup_cmd: make sure hypothesis + pyyaml are importable by /venv/bin/python, offline.
PY="${VF_PYTHON:-/venv/bin/python}"
"$PY" -c "import hypothesis, yaml" 2>/dev/null && exit 0
/venv/bin/pip install --no-index --find-links /opt/veriftools/wheels hypothesis pyyaml || exit 1
"$PY" -c "import hypothesis, yaml"
