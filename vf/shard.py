"""One shard = one process running one property with hypothesis under a derived seed."""
import collections
import importlib
import json
import os
import sys
import time
import traceback

from .core import Violation, HarnessError, Outcome, case_hash, dumps
from . import findings


def load_prop(pid):
    return importlib.import_module('vf.props.' + pid.lower())


def assert_repo():
    """The code under test must come from $AY_REPO's working tree."""
    import awesomeyaml
    root = os.path.realpath(os.environ.get('AY_REPO', '/repo'))
    mod = sys.modules['awesomeyaml']
    f = getattr(mod, '__file__', None) or getattr(getattr(mod, 'module', None), '__file__', None)
    if f is None or not os.path.realpath(f).startswith(root + os.sep):
        raise HarnessError(f'awesomeyaml imported from {f!r}, expected below {root!r}')


class Stats:
    def __init__(self):
        self.evaluations = 0
        self.nontrivial = set()
        self.labels = collections.Counter()
        self.samples = []
        self.excluded = 0
        self.known = collections.Counter()

    def add(self, prop, case, out):
        self.evaluations += 1
        for lb in out.labels:
            self.labels[lb] += 1
        self.excluded += out.excluded
        for k in out.known:
            self.known[k] += 1
        if out.nontrivial:
            h = case_hash(case)
            if h not in self.nontrivial:
                self.nontrivial.add(h)
                if len(self.samples) < 4:
                    rep = getattr(prop, 'sample_repr', None)
                    self.samples.append(rep(case) if rep else case)

    def to_json(self):
        return {
            'evaluations': self.evaluations,
            'nontrivial': sorted(self.nontrivial),
            'labels': dict(self.labels),
            'samples': self.samples,
            'excluded': self.excluded,
            'known': dict(self.known),
        }


def run_shard(pid, tier, seed, shard, n_examples, outfile):
    import hypothesis
    from hypothesis import given, settings, HealthCheck, Phase

    t0 = time.time()
    prop = load_prop(pid)
    assert_repo()
    stats = Stats()
    state = {'fail': None, 'after_fail': 0, 'known': {}}
    shrink_cap = int(os.environ.get('VF_SHRINK_CAP', getattr(prop, 'SHRINK_CAP', {}).get(tier, 1500 if tier == 'quick' else 20000)))
    guard = getattr(prop, 'CRASH_GUARD', False)
    curfile = outfile + '.cur'

    def body(case):
        if state['fail'] is not None:
            state['after_fail'] += 1
            if state['after_fail'] > shrink_cap:
                return          # stop shrinking: everything "passes" from now on
        if guard:
            with open(curfile, 'w') as f:
                f.write(dumps(case))
        try:
            out = prop.run_case(case)
        except Violation as v:
            if v.finding is not None and findings.is_open(pid, v.finding):
                # attributed to an open known finding: count it, keep searching
                state['known'].setdefault(v.finding, (case, v.msg))
                stats.add(prop, case, Outcome(labels=['known-finding:' + v.finding], known=[v.finding]))
                return
            state['fail'] = (case, v.msg)
            raise
        if state['fail'] is None:
            stats.add(prop, case, out or Outcome())

    test = given(prop.strategy())(body)
    test = settings(
        max_examples=n_examples, database=None, deadline=None, derandomize=False,
        report_multiple_bugs=False, suppress_health_check=list(HealthCheck),
        phases=[Phase.explicit, Phase.generate, Phase.shrink], print_blob=False,
    )(test)
    test = hypothesis.seed(seed * 1000 + shard)(test)

    result = {'shard': shard, 'status': 'ok'}
    try:
        test()
    except HarnessError as e:
        result['status'] = 'harness'
        result['error'] = ''.join(traceback.format_exception(type(e), e, e.__traceback__))
    except BaseException as e:      # hypothesis re-raises the Violation (or Flaky after the shrink cap)
        if state['fail'] is not None:
            result['status'] = 'violation'
        else:
            result['status'] = 'harness'
            result['error'] = ''.join(traceback.format_exception(type(e), e, e.__traceback__))
    if state['fail'] is not None:
        result['status'] = 'violation'
        result['case'], result['msg'] = state['fail']
    result['known_cases'] = {k: {'case': c, 'msg': m} for k, (c, m) in state['known'].items()}
    result['stats'] = stats.to_json()
    result['wall_s'] = time.time() - t0
    with open(outfile, 'w') as f:
        f.write(dumps(result))
    if guard:
        try:
            os.unlink(curfile)
        except OSError:
            pass
    return 0
