"""Deterministic thread scheduler at python-line granularity (C20).

Every worker thread installs a sys.settrace tracer that fires on each 'line' event inside the awesomeyaml package
and asks the scheduler whether it may go on.  Exactly one thread runs at any time; a generated list of
(thread, quantum) pairs says after how many line events control moves and to whom (round-robin with a fixed
quantum once the list is exhausted; finished threads are skipped).  The interleaving is a pure function of the schedule.
"""
import os
import sys
import threading


class Sched:
    def __init__(self, n, schedule, tail_quantum=40, max_events=3_000_000):
        self.n = n
        self.schedule = list(schedule)
        self.pos = 0
        self.cond = threading.Condition()
        self.finished = [False] * n
        self.current = None
        self.remaining = 0
        self.tail_quantum = tail_quantum
        self.switches = 0
        self.events = 0
        self.max_events = max_events
        self.trace_log = []          # (tid) per switch, for the replay text
        import awesomeyaml.nodes.node as nd
        self.root = os.path.dirname(os.path.dirname(os.path.abspath(nd.__file__))) + os.sep
        self._next_slot(None)

    # -- choosing who runs next (must be called with the condition held, or before threads start)
    def _next_slot(self, leaving):
        alive = [i for i in range(self.n) if not self.finished[i]]
        if not alive:
            self.current = None
            return
        while self.pos < len(self.schedule):
            tid, q = self.schedule[self.pos]
            self.pos += 1
            tid %= self.n
            if not self.finished[tid]:
                self.current, self.remaining = tid, max(1, q)
                break
        else:
            start = (leaving + 1) if leaving is not None else 0
            for k in range(self.n):
                tid = (start + k) % self.n
                if not self.finished[tid]:
                    self.current, self.remaining = tid, self.tail_quantum
                    break
        if self.current != leaving:
            self.switches += 1
            if len(self.trace_log) < 400:
                self.trace_log.append(self.current)

    def _wait_turn(self, tid):
        while self.current != tid:
            self.cond.wait()

    def enter(self, tid):
        with self.cond:
            self._wait_turn(tid)

    def tick(self, tid):
        self.events += 1
        if self.events > self.max_events:
            raise RuntimeError('scheduler event budget exceeded')
        self.remaining -= 1
        if self.remaining > 0:
            return
        with self.cond:
            self._next_slot(tid)
            if self.current != tid:
                self.cond.notify_all()
                self._wait_turn(tid)

    def leave(self, tid):
        with self.cond:
            self.finished[tid] = True
            if self.current == tid:
                self._next_slot(tid)
            self.cond.notify_all()

    def tracer(self, tid):
        root = self.root

        def local(frame, event, arg):
            if event == 'line':
                self.tick(tid)
            return local

        def glob(frame, event, arg):
            if frame.f_code.co_filename.startswith(root):
                return local
            return None
        return glob


def run_threads(bodies, schedule, tail_quantum=40):
    """bodies: list of zero-argument callables -> list of results ('ok', value) / ('err', exception); plus scheduler stats."""
    n = len(bodies)
    sched = Sched(n, schedule, tail_quantum=tail_quantum)
    results = [None] * n

    def worker(tid):
        sched.enter(tid)
        sys.settrace(sched.tracer(tid))
        try:
            try:
                results[tid] = ('ok', bodies[tid]())
            except BaseException as e:      # noqa
                results[tid] = ('err', e)
        finally:
            sys.settrace(None)
            sched.leave(tid)
    threads = [threading.Thread(target=worker, args=(i,), daemon=True) for i in range(n)]
    for t in threads:
        t.start()
    for t in threads:
        t.join(120)
    if any(t.is_alive() for t in threads):
        raise RuntimeError('scheduler deadlock / timeout')
    return results, sched
