"""C16 - !append / !extend / !prev move and grow existing content without loss.

Oracle: list/move model over plain data applied in document order + the C02 fold for everything else (frame).
"""
import copy

import yaml
from hypothesis import strategies as st

from .. import tdoc, strategies as S, observe as O
from ..core import Violation, Outcome
from .c02 import upd, Invalid

ID = 'C16'
TITLE = '!append / !extend / !prev'
RULE = ('base config (nested mappings with string and integer keys, lists, lists of lists) and 1-3 later stages each holding 1-3 operators at pairwise unrelated paths '
        '(top level, nested in mappings, !prev sources also inside lists; !append/!extend targets inside lists only in a dedicated class), '
        'targets existing / missing / non-list, !prev destinations fresh or holding a scalar / a mapping, plus untouched or plainly overridden sibling '
        'content; non-trivial = an operator at depth >=1 or addressing into a list, or >=2 operators in the history; distinct = hash of the case')
BUDGET = {'quick': (4, 600), 'thorough': (16, 10000)}
ASSUMPTIONS = ['!append in the very first document is not generated (statement: fails; fixture: plain list)',
               'a subtree moved by !prev onto a destination that holds a mapping merges with it by the ordinary rules (C02 fold)']

KEYS = ['a', 'b', 'c', 'l', '_p', 1, 7, 'v1.0', 'my-key', 'extend', 'extend']       # integer keys and keys that are not plain names too (the latter cannot be spelled in the path text of a !prev)
LEAF = st.one_of(st.integers(0, 9), st.sampled_from(['s', 't', 2.5, None, True, 0, False, '', 0.0]))


@st.composite
def _plain(draw, depth=0):
    n = draw(st.integers(2, 4) if depth == 0 else st.integers(1, 3))
    keys = draw(st.lists(st.sampled_from(KEYS), min_size=n, max_size=n, unique=True))
    out = {}
    for k in keys:
        c = draw(st.integers(0, 6))
        if c <= 1 and depth < 2:
            out[k] = draw(_plain(depth + 1))
        elif c <= 3:
            out[k] = [draw(LEAF) for _ in range(draw(st.integers(0, 3)))]
        elif c == 4:
            out[k] = [[draw(LEAF) for _ in range(draw(st.integers(0, 2)))] for _ in range(draw(st.integers(1, 3)))]
        elif c == 5 and depth < 2:
            out[k] = [draw(_plain(depth + 2)) for _ in range(draw(st.integers(1, 2)))]
        elif c == 6 and draw(st.booleans()):
            out[k] = draw(st.sampled_from([{}, []]))
        else:
            out[k] = draw(LEAF)
    return out


def _all_paths(p, pre=()):
    out = []
    if isinstance(p, dict):
        for k, v in p.items():
            out.append(pre + (k,))
            out += _all_paths(v, pre + (k,))
    elif isinstance(p, list):
        for i, v in enumerate(p):
            out.append(pre + (i,))
            out += _all_paths(v, pre + (i,))
    return out


def _get(p, path):
    for c in path:
        p = p[c]
    return p


def path_str(path):
    out = ''
    for c in path:
        out += f'[{c}]' if isinstance(c, int) else ('.' if out else '') + str(c)
    return out


def through_list(cur, path):
    """True iff some component of the path indexes into a list of the plain config `cur` (missing tails count as mapping keys)."""
    node = cur
    for c in path:
        if isinstance(node, list):
            if not (isinstance(c, int) and -len(node) <= c < len(node)):
                return True
            return True
        if isinstance(node, dict) and c in node:
            node = node[c]
        else:
            return False
    return False


def _related(p, q):
    n = min(len(p), len(q))
    return p[:n] == q[:n]


@st.composite
def _stage(draw, cur):
    """-> list of ops [{'op','path',...}] + sibling plain overrides"""
    paths = _all_paths(cur)
    ops = []
    used = []
    for _ in range(draw(st.integers(1, 3))):
        kind = draw(st.sampled_from(['append', 'extend', 'prev', 'append', 'prev']))
        if kind in ('append', 'extend'):
            mode = draw(st.sampled_from(['list'] * 5 + ['missing', 'nonlist', 'nonlist']))
            inlist_ok = draw(st.integers(0, 2)) == 0       # targets addressed through a list index (was an open finding until R55)
            cand = [p for p in paths if isinstance(_get(cur, p), list) and (inlist_ok or not through_list(cur, p))] if mode == 'list' else \
                [p for p in paths if not isinstance(_get(cur, p), list)] if mode == 'nonlist' else []
            named = [p for p in cand if isinstance(_get(cur, p), dict) and ('extend' in _get(cur, p) or 'append' in _get(cur, p))]
            if named and draw(st.booleans()):
                cand = named        # a mapping that has a key called like the list method the operator would use
            if cand:
                p = cand[draw(st.integers(0, len(cand) - 1))]
            else:
                # a missing key next to an existing mapping
                parents = [()] + [q for q in paths if isinstance(_get(cur, q), dict)]
                par = parents[draw(st.integers(0, len(parents) - 1))]
                held = _get(cur, par) if par else cur
                p = par + (next(f'zz{i}' for i in range(len(ops), len(ops) + 50) if f'zz{i}' not in held),)
            if any(_related(p, u) for u in used):
                continue
            scalar = draw(st.integers(0, 4)) == 0
            val = draw(LEAF) if scalar else [draw(LEAF) for _ in range(draw(st.integers(0, 3)))]
            if scalar and val is None:
                val = 7
            ops.append({'op': kind, 'path': list(p), 'val': val, 'inlist': through_list(cur, p)})
            used.append(p)
        else:
            missing = draw(st.integers(0, 5)) == 0
            spellable = [p for p in paths if all(not isinstance(c, str) or c.replace('_', 'a').isalnum() for c in p)]
            if missing or not spellable:
                src = ('nope',)
            else:
                src = spellable[draw(st.integers(0, len(spellable) - 1))]
            dmode = draw(st.sampled_from(['fresh', 'fresh', 'scalar', 'map']))
            cand = [p for p in paths if not isinstance(_get(cur, p), (dict, list)) and not through_list(cur, p)] if dmode == 'scalar' else []
            if dmode == 'map' and src != ('nope',):
                # the destination holds a mapping already: what is moved there merges with it by the ordinary rules (key-wise for a
                # mapping, also one that has been an element of a list), every other entry of the destination keeps its value
                cand = [p for p in paths if isinstance(_get(cur, p), dict) and _get(cur, p) and not through_list(cur, p) and not _related(p, src)]
            if cand:
                dst = cand[draw(st.integers(0, len(cand) - 1))]
            else:
                parents = [()] + [q for q in paths if isinstance(_get(cur, q), dict) and not through_list(cur, q)]
                par = parents[draw(st.integers(0, len(parents) - 1))]
                # a key the destination mapping does not hold yet (earlier stages may have used the same names)
                held = _get(cur, par) if par else cur
                nm = next(f'q{i}' for i in range(len(ops), len(ops) + 50) if f'q{i}' not in held)
                dst = par + (nm,)
            # removing an element renumbers its siblings: no other operator of the stage may address that list
            src_zone = src[:-1] if len(src) >= 1 and src != ('nope',) and isinstance(_get(cur, src[:-1]), list) else src
            if any(_related(src_zone, u) or _related(dst, u) for u in used) or _related(src_zone, dst):
                continue
            ops.append({'op': 'prev', 'path': list(dst), 'src': list(src), 'inlist': src != ('nope',) and through_list(cur, src)})
            used += [src_zone, dst]
    # the same operator node once more at another place, through a yaml alias: it acts at each place on what is there
    appenders = [i for i, o in enumerate(ops) if o['op'] in ('append', 'extend') and not o.get('inlist')]
    if appenders and draw(st.integers(0, 4)) == 0:
        i = appenders[draw(st.integers(0, len(appenders) - 1))]
        cand = [p for p in paths if isinstance(_get(cur, p), list) and not through_list(cur, p) and not any(_related(p, u) for u in used)]
        if cand:
            p2 = cand[draw(st.integers(0, len(cand) - 1))]
            ops.append({'op': ops[i]['op'], 'path': list(p2), 'val': ops[i]['val'], 'inlist': False, 'alias_of': list(ops[i]['path'])})
            used.append(p2)
    # sibling content: plain overrides at unrelated top-level keys
    sib = {}
    for k in draw(st.lists(st.sampled_from(KEYS + ['n1', 'n2']), max_size=2, unique=True)):
        if not any(u[0] == k for u in used):
            sib[k] = draw(st.one_of(LEAF, st.lists(LEAF, max_size=2)))
    return {'ops': ops, 'sib': [[k, v] for k, v in sib.items()]}     # (a list of pairs: json cannot hold integer keys)


def _sib(stage):
    return list(stage['sib'].items()) if isinstance(stage['sib'], dict) else stage['sib']      # (older replay files hold a dict)


def apply_model(cur, stage):
    """-> new plain config, or raises PremergeFail"""
    cur = copy.deepcopy(cur)
    newer = {}      # plain content the stage writes after premerge (path -> value), merged with the fold

    def put(path, value):
        d = newer
        for c in path[:-1]:
            d = d.setdefault(c, {})
        d[path[-1]] = value

    def remove(path):
        par = _get(cur, path[:-1])
        if isinstance(par, list):
            par.pop(path[-1])
        else:
            del par[path[-1]]

    def lookup(path):
        node = cur
        for c in path:
            if isinstance(node, dict) and c in node:
                node = node[c]
            elif isinstance(node, list) and isinstance(c, int) and -len(node) <= c < len(node):
                node = node[c]
            else:
                return None, False
        return node, True

    for op in stage['ops']:
        path = tuple(op['path'])
        if op['op'] in ('append', 'extend'):
            add = op['val'] if isinstance(op['val'], list) else [op['val']]
            old, found = lookup(path)
            if found and isinstance(old, list):
                old.extend(add)         # the value at p becomes the previous list followed by L; nothing else changes
            elif op['op'] == 'append':
                raise PremergeFail(f'!append at {path_str(path)}: no previous list')
            else:
                put(path, list(add))
        else:
            src = tuple(op['src'])
            old, found = lookup(src)
            if not found:
                raise PremergeFail(f'!prev {path_str(src)}: missing')
            remove(src)
            put(path, old)
    for k, v in _sib(stage):
        newer[k] = v
    return upd(cur, newer)


class PremergeFail(Exception):
    pass


def stage_ast(stage):
    root = tdoc.mp([])

    def put(path, node):
        cur = root
        for c in path[:-1]:
            nxt = [v for k, v in cur['items'] if k == c and type(k) is type(c)]
            if nxt:
                cur = nxt[0]
            else:
                n = tdoc.mp([])
                cur['items'].append([c, n])
                cur = n
        cur['items'].append([path[-1], node])
    def aname(path):
        return 'o' + ''.join(ch if ch.isalnum() else '_' for ch in path_str(path))
    aliased = {tuple(op['alias_of']) for op in stage['ops'] if op.get('alias_of') is not None}
    for op in stage['ops']:
        n_ = tuple(op['path'])
        if op.get('alias_of') is not None:
            put(op['path'], {'t': 'alias', 'name': aname(op['alias_of'])})
        elif op['op'] in ('append', 'extend'):
            body = tdoc.from_plain(op['val'])
            if body['t'] == 'seq':
                body['flow'] = True
            body['tag'] = '!' + op['op']
            if n_ in aliased:
                body['anchor'] = aname(op['path'])
            put(op['path'], body)
        else:
            put(op['path'], tdoc.raw(path_str(op['src']), '!prev'))
    for k, v in _sib(stage):
        n = tdoc.from_plain(v)
        if n['t'] == 'seq':
            n['flow'] = True
        root['items'].append([k, n])
    if aliased:
        from .c10 import order_anchors
        root = order_anchors(root)      # (the first place in the text carries the anchor)
    return root


@st.composite
def _case(draw):
    base = draw(_plain())
    cur = base
    stages = []
    if draw(st.integers(0, 5)) == 0:
        # a mapping that is an element of a list, and a mapping elsewhere with the same keys and more below them: moved onto it,
        # the element merges key-wise at every depth, like any mapping does - what the destination holds besides stays
        elem = {'x': {'u': draw(LEAF)}, 'w': draw(LEAF)}
        base = dict(base)
        base['tl'] = [elem] + [draw(LEAF) for _ in range(draw(st.integers(0, 2)))]
        base['tw'] = {'x': {'v': draw(LEAF), 'u': draw(LEAF)}, 'y': draw(LEAF)}
        cur = base
        stages.append({'ops': [{'op': 'prev', 'path': ['tw'], 'src': ['tl', 0], 'inlist': True}], 'sib': []})
        cur = apply_model(cur, stages[0])
    for _ in range(draw(st.sampled_from([1, 1, 2, 3]))):
        s = draw(_stage(cur))
        stages.append(s)
        try:
            cur = apply_model(cur, s)
        except (PremergeFail, Invalid, KeyError, IndexError, TypeError):
            break
    base_ast = tdoc.from_plain(base)
    if draw(st.integers(0, 5)) == 0:
        # priorities in the base: a list whose elements carry tags of their own - growing one of them leaves the others, and the
        # element itself, where and what they are
        wl = tdoc.sq([tdoc.sq([tdoc.sc(draw(LEAF))], flow=True, prio=draw(st.sampled_from([-1, -1, 1])), mdstyle='short'),
                      tdoc.sq([tdoc.sc(draw(LEAF))], flow=True), tdoc.sc(3)])
        base_ast['items'].append(['wl', wl])
        extra = {'ops': [{'op': draw(st.sampled_from(['append', 'extend'])), 'path': ['wl', draw(st.sampled_from([0, 0, -3]))], 'val': [draw(LEAF)], 'inlist': True}], 'sib': []}
        if draw(st.booleans()):
            extra['ops'].append({'op': 'extend', 'path': ['wl', 1], 'val': [draw(LEAF)], 'inlist': True})
        stages = [extra]
    return {'base': base_ast, 'stages': stages}        # (the base as a document AST: json cannot hold integer keys)


def strategy():
    return _case()


def _base(case):
    b = case['base']
    return tdoc.plain(b) if isinstance(b, dict) and b.get('t') == 'map' and 'items' in b else b      # (older replay files hold the plain dict)


def _in_list_target(op, cur):
    return op['op'] in ('append', 'extend') and op.get('inlist', any(isinstance(c, int) for c in op['path']))


def run_case(case):
    # (until R55 a violation in a history with operators aimed into a list was attributed to an open finding by a counterfactual run
    # without them; the finding is repaired, every violation is a violation)
    return _run_case(case)


def _run_case(case):
    base, stages = _base(case), case['stages']
    b_ast = case['base'] if isinstance(case['base'], dict) and case['base'].get('t') == 'map' and 'items' in case['base'] else tdoc.from_plain(base)
    texts = [tdoc.render(b_ast)] + [tdoc.render(stage_ast(s)) for s in stages]      # (the AST may carry priority tags on list elements)
    labels = {f'stages={len(stages)}'}
    nops = sum(len(s['ops']) for s in stages)
    nontrivial = nops >= 2
    expected = base
    fail = None
    for s in stages:
        for op in s['ops']:
            labels.add('op=' + op['op'])
            if op.get('alias_of') is not None:
                labels.add('operator-node-aliased')
                nontrivial = True
            if len(op['path']) >= 2:
                nontrivial = True
                labels.add('depth>=1')
            if op.get('inlist', any(isinstance(c, int) for c in op.get('src', [])) or any(isinstance(c, int) for c in op['path'])):
                nontrivial = True
                labels.add('into-list')
            elif any(isinstance(c, int) for c in op['path']) or any(isinstance(c, int) for c in op.get('src', [])):
                nontrivial = True
                labels.add('path-through-integer-mapping-key')
        if fail is None:
            try:
                expected = apply_model(expected, s)
            except PremergeFail as e:
                fail = ('PremergeError', str(e))
            except Invalid as e:
                fail = ('MergeError', str(e))
    in_list_append = any(_in_list_target(op, None) for s in stages for op in s['ops'])
    if in_list_append:
        labels.add('append-target-inside-list')
    src = '\nsources:\n' + '\n'.join(texts)
    status, got = O.try_call(O.build_config, texts)
    fid = None
    if fail is not None:
        labels.add('expect-' + fail[0])
        if status == 'ok':
            raise Violation(f'C16: expected {fail[0]} ({fail[1]}) but the build succeeded with {O.to_builtin(got)!r}{src}', finding=fid)
        if type(got).__name__ != fail[0]:
            raise Violation(f'C16: expected {fail[0]} ({fail[1]}), got {type(got).__name__}: {got}{src}', finding=fid)
    else:
        labels.add('expect-ok')
        if status != 'ok':
            raise Violation(f'C16: build failed with {type(got).__name__}: {got}; expected {expected!r}{src}', finding=fid)
        gotb = O.to_builtin(got)
        if O.canon_unordered(gotb) != O.canon_unordered(expected):
            raise Violation(f'C16: result {gotb!r} != list/move model {expected!r}{src}', finding=fid)
    return Outcome(nontrivial=nontrivial, labels=sorted(labels))


def sample_repr(case):
    return [tdoc.render(tdoc.from_plain(_base(case)))] + [tdoc.render(stage_ast(s)) for s in case['stages']]
