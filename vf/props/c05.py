"""C05 - merging is local: wrapping every document under the same key chain wraps the result; siblings are independent.

Metamorphic oracle over three builds of the implementation: D_i, {k..: D_i}, {k..: D_i, s: E_i}.
"""
from hypothesis import strategies as st

from .. import tdoc, strategies as S, observe as O
from ..core import Violation, Outcome

ID = 'C05'
TITLE = 'merging is local (wrap under a key chain, sibling independence)'
RULE = ('stage sequences of 1-4 mapping documents with priority / !del / !merge / !new / !notnew tags at any depth, a wrapping key chain of '
        'length 1-3 drawn from the documents\' own key alphabet, optional unrelated sibling stage sequence under another key, optional injective renaming of the string keys (new names biased towards '
        'spellings of paths existing elsewhere: a.b, k[0]), optional yaml alias placing a container of an earlier document under a further key; '
        'frame relation: paths the last document neither mentions nor has below a deleting node are unchanged; non-trivial = '
        '>=2 stages and a deleting node or priority tag at depth >=1 in the unwrapped documents; distinct = hash of the case')
BUDGET = {'quick': (4, 750), 'thorough': (16, 8000)}
ASSUMPTIONS = ['documented exception: if a stage root is an explicit !del and the unwrapped result is empty the wrapped key may be removed',
               'soundness limits of DESIGN.md section 6 (no nested differing priority tags, no !del on falsy scalars / empty containers)']

STR_KEYS = ['a', 'b', 'c', 'd', 'x', '_u']


@st.composite
def _replace_under_notnew(draw):
    """Two stages: a plain tree, then a document whose root is !notnew and that replaces (!del) one existing mapping by a
    mapping holding some of its old keys and possibly a brand-new one (which is what !notnew must reject)."""
    keys = st.sampled_from(['a', 'b', 'c', 'd', 'x'])
    older = draw(S.mapping_doc(S.scalar_node(S.SIMPLE_SCALARS), keys, max_leaves=8, max_children=3, min_size=1))
    path, cur = [], older
    for _ in range(draw(st.integers(0, 2))):
        cands = [(k, v) for k, v in cur['items'] if v['t'] == 'map' and v['items']]
        if not cands:
            break
        k, cur = cands[draw(st.integers(0, len(cands) - 1))]
        path.append(k)
    items = []
    for k, v in cur['items']:
        if draw(st.booleans()):
            items.append([k, tdoc.sc(draw(st.integers(0, 9)))])
    if not items or draw(st.booleans()):
        k = draw(keys)
        if not any(k == kk for kk, _ in items):
            items.append([k, tdoc.sc(5)])
    node = tdoc.mp(items, flow=draw(st.booleans()), **({'del': True} if path else {}))
    for k in reversed(path):
        node = tdoc.mp([(k, node)])
    node['new'] = False
    if not path:
        node['del'] = True
    node['mdstyle'] = draw(st.sampled_from(['short', 'braces']))
    # spellings of the paths that the replacement removes, relative to the replaced mapping
    spell = []
    for p_, n in tdoc.walk(cur):
        if len(p_) >= 2:
            t = ''
            for c_ in p_:
                t += f'[{c_}]' if isinstance(c_, int) else ('.' if t else '') + str(c_)
            spell.append(t)
    return [older, node], sorted(set(spell)), [k for k, _ in items]


@st.composite
def _case(draw):
    spell, focus_keys = [], []
    if draw(st.integers(0, 4)) == 0:
        docs, spell, focus_keys = draw(_replace_under_notnew())
    else:
        docs = draw(S.tagged_stages(min_stages=1, max_stages=4, notnew=True, density=3))
    # premerge operators (!clear / !append / !extend / !prev) at string-keyed top-level positions of later stages;
    # a !prev path is absolute, so it is rewritten with the wrapping prefix in the wrapped variant
    if len(docs) >= 2 and draw(st.integers(0, 2)) == 0:
        for _ in range(draw(st.integers(1, 2))):
            d = docs[draw(st.integers(1, len(docs) - 1))]
            earlier_keys = [k for dd in docs[:1] for k, _ in dd['items'] if isinstance(k, str)] or ['a']
            key = draw(st.sampled_from(earlier_keys + ['zz']))
            kind = draw(st.sampled_from(['clear', 'append', 'extend', 'prev']))
            if kind == 'clear':
                node = {'t': 'empty', 'tag': '!clear'}
            elif kind in ('append', 'extend'):
                node = tdoc.sq([tdoc.sc(draw(st.integers(0, 9))) for _ in range(draw(st.integers(0, 2)))], flow=True, tag='!' + kind)
            else:
                src = draw(st.sampled_from(earlier_keys))
                node = tdoc.raw(src, '!prev')
                key = 'moved'
            d['items'] = [kv for kv in d['items'] if kv[0] != key] + [[key, node]]
    if len(docs) >= 2 and not spell and draw(st.integers(0, 2)) == 0:
        # a container of an earlier document (tagged or not) is used again, through a yaml alias, under a further key of that document:
        # what later documents write below one place must not show at the other (frame relation)
        di = draw(st.integers(0, len(docs) - 2))
        cands = [n for p_, n in tdoc.walk(docs[di]) if p_ and n['t'] in ('map', 'seq') and n['items'] and not n.get('tag')]
        later_paths = {tuple(p_) for d_ in docs[di + 1:] for p_, _ in tdoc.walk(d_)}
        hit = [n for p_, n in tdoc.walk(docs[di]) if p_ and n['t'] in ('map', 'seq') and n['items'] and not n.get('tag') and tuple(p_) in later_paths]
        if hit and draw(st.integers(0, 3)) != 0:
            cands = hit         # a container that a later document writes to
        if cands:
            tgt = cands[draw(st.integers(0, len(cands) - 1))]
            tgt['anchor'] = 'n0'
            docs[di]['items'] = [kv for kv in docs[di]['items'] if kv[0] != 'zal'] + [['zal', {'t': 'alias', 'name': 'n0'}]]
    has_prev = any(n.get('tag') == '!prev' for d in docs for _, n in tdoc.walk(d))
    # wrapping keys: the documents' own alphabet, plus (unless a !prev path would have to spell them) keys that are not plain names
    exotic = [] if has_prev else ['my-key', 'a.b', 'model v2', 'x[0]', '0']
    chain = draw(st.lists(st.sampled_from(STR_KEYS + [0, 1] + exotic), min_size=1, max_size=3))
    chain[0] = draw(st.sampled_from(STR_KEYS + exotic))    # a document root is a mapping with arbitrary keys; ints are fine deeper too
    has_ops = any(str(n.get('tag', '')) in ('!clear', '!append', '!extend') for d in docs for _, n in tdoc.walk(d))
    if has_ops and exotic and draw(st.booleans()):
        chain = [draw(st.sampled_from(exotic))]           # an operator's target directly below a key that is not a plain name
    sib = None
    if draw(st.integers(0, 2)) == 0:
        sdocs = draw(S.tagged_stages(min_stages=1, max_stages=len(docs), notnew=False, density=3, max_leaves=5))
        skey = draw(st.sampled_from([k for k in STR_KEYS if k != chain[0]]))
        pos = sorted(draw(st.lists(st.integers(0, len(docs) - 1), min_size=len(sdocs), max_size=len(sdocs), unique=True)))
        sib = {'key': skey, 'docs': sdocs, 'pos': pos}
    rename = []
    if not has_prev and (spell or draw(st.integers(0, 2)) == 0):
        # consistent injective renaming of string keys; the new names are biased towards spellings of paths that exist
        # elsewhere in the documents ('a.b' where some mapping a has a child b, 'k[0]' where k holds a list)
        keys, joins = set(), set()
        for d in docs:
            for p_, n in tdoc.walk(d):
                if p_ and isinstance(p_[-1], str):
                    keys.add(p_[-1])
                    if len(p_) >= 2 and isinstance(p_[-2], str):
                        joins.add(p_[-2] + '.' + p_[-1])
                    if n['t'] == 'seq':
                        joins.add(p_[-1] + '[0]')
        pool = sorted(joins) * 2 + ['my-key', 'a.b', 'model v2', 'x[0]', 'b.a', 'zq']
        used = set(keys)
        for k in sorted(keys):
            if k.startswith('_') or draw(st.integers(0, 1)) == 0:
                continue
            new = draw(st.sampled_from(spell * 3 + pool if k in focus_keys else pool))
            if new not in used:
                used.add(new)
                rename.append([k, new])
    return {'docs': docs, 'chain': chain, 'sib': sib, 'rename': rename}


def strategy():
    return _case()


def path_prefix(chain):
    out = ''
    for c_ in chain:
        out += f'[{c_}]' if isinstance(c_, int) else ('.' if out else '') + str(c_)
    return out


def rewrite_prev(node, prefix):
    out = dict(node)
    if node.get('tag') == '!prev':
        out['text'] = prefix + ('' if node['text'].startswith('[') else '.') + node['text']
    if node['t'] == 'map':
        out['items'] = [[k, rewrite_prev(v, prefix)] for k, v in node['items']]
    elif node['t'] == 'seq':
        out['items'] = [rewrite_prev(v, prefix) for v in node['items']]
    return out


def wrap(doc, chain):
    doc = rewrite_prev(doc, path_prefix(chain))
    cur = doc
    for k in reversed(chain):
        if isinstance(k, int):
            # an int key in a wrapping chain still denotes a mapping key (a mapping with key 0), not a list index
            cur = tdoc.mp([(k, cur)])
        else:
            cur = tdoc.mp([(k, cur)])
    return cur


def rename_doc(node, ren):
    out = dict(node)
    if node['t'] == 'map':
        out['items'] = [[ren.get(k, k) if isinstance(k, str) else k, rename_doc(v, ren)] for k, v in node['items']]
    elif node['t'] == 'seq':
        out['items'] = [rename_doc(v, ren) for v in node['items']]
    return out


def rename_value(v, ren):
    if isinstance(v, dict):
        return {(ren.get(k, k) if isinstance(k, str) else k): rename_value(x, ren) for k, x in v.items()}
    if isinstance(v, list):
        return [rename_value(x, ren) for x in v]
    return v


def _build(texts):
    st_, res = O.try_call(O.build_nodes, texts)
    if st_ == 'ok':
        return 'ok', O.plain(res) if res is not None else None
    return 'err', type(res).__name__


def classify(docs):
    nt = False
    labels = {f'stages={len(docs)}'}
    for d in docs:
        for p, n in tdoc.walk(d):
            if p and (n.get('del') is True or (n['t'] == 'seq') or n.get('prio') is not None):
                if len(docs) >= 2:
                    nt = True
            for fk in ('prio', 'del', 'new'):
                if n.get(fk) is not None:
                    labels.add(f'{fk}={n[fk]}')
            if str(n.get('tag', '')) in ('!clear', '!append', '!extend', '!prev'):
                labels.add('operator=' + n['tag'])
                nt = True
    return nt, labels


def untouched_paths(last, before):
    """Minimal paths of the result built so far (`before`, plain data) that the document `last` does not mention and that are not
    below a deleting (or replacing) node of it: children of a merging mapping of `last` that `last` has no key for."""
    out = []

    def rec(n, cur, path, inherited):
        if n['t'] != 'map' or str(n.get('tag', '')).startswith('!'):
            return                                  # lists delete by default, scalars / operators replace: nothing below is claimed
        deleting = n['del'] if n.get('del') is not None else inherited
        if deleting:
            return
        if isinstance(cur, dict):
            mentioned = [k for k, _ in n['items']]
            for k, v in cur.items():
                if not any(k == m and type(k) is type(m) for m in mentioned):
                    if not any(k == m for m in mentioned):      # (1 / True / 1.0 spell one key)
                        out.append(path + [k])
            for k, v in n['items']:
                if k in cur and any(k == c and type(k) is type(c) for c in cur):
                    rec(v, cur[k], path + [k], n['del'] if n.get('del') is not None else inherited)
        elif isinstance(cur, list):
            idx = [k for k, _ in n['items']]
            if any(not isinstance(k, int) or isinstance(k, bool) or k < 0 or k >= len(cur) for k in idx):
                return                              # negative / invalid indices: not claimed
            for i, v in enumerate(cur):
                if i not in idx:
                    out.append(path + [i])
            for k, v in n['items']:
                rec(v, cur[k], path + [k], n['del'] if n.get('del') is not None else inherited)
    rec(last, before, [], None)
    return out


def _at(val, path):
    for c in path:
        val = val[c]
    return val


def run_case(case):
    docs, chain, sib = case['docs'], case['chain'], case['sib']
    texts = [tdoc.render(d) for d in docs]
    base = _build(texts)
    wdocs = [wrap(d, chain) for d in docs]
    wtexts = [tdoc.render(d) for d in wdocs]
    wrapped = _build(wtexts)
    nt, labels = classify(docs)
    labels.add('chain=%d' % len(chain))
    if any(isinstance(k, str) and not k.replace('_', 'a').isalnum() for k in chain):
        labels.add('non-identifier-wrapping-key')
    labels.add('base-' + base[0])
    if any(n['t'] == 'alias' for d in docs for _, n in tdoc.walk(d)):
        labels.add('yaml-alias-of-a-container')
    src = '\nunwrapped sources:\n' + '\n'.join(texts) + '\nwrapped sources:\n' + '\n'.join(wtexts)

    def expect_wrapped(val):
        cur = val
        for k in reversed(chain):
            cur = {k: cur}
        return cur

    root_explicit_del = any(d.get('del') is True for d in docs)
    if base[0] == 'ok':
        if wrapped[0] != 'ok':
            raise Violation(f'C05: unwrapped build gives {base[1]!r} but the same sequence wrapped under {chain} fails with {wrapped[1]}{src}')
        exp = expect_wrapped(base[1])
        if O.canon(wrapped[1]) != O.canon(exp):
            if not (root_explicit_del and not base[1]):
                raise Violation(f'C05: wrapped result {wrapped[1]!r} != unwrapped result wrapped under {chain}: {exp!r}{src}')
            labels.add('root-del-exception')
    else:
        if wrapped[0] == 'ok':
            raise Violation(f'C05: unwrapped build fails with {base[1]} but wrapped under {chain} it succeeds: {wrapped[1]!r}{src}')
        if wrapped[1] != base[1]:
            raise Violation(f'C05: unwrapped build fails with {base[1]}, wrapped under {chain} with {wrapped[1]}{src}')
    # frame: paths the last document does not mention, and that are not below a deleting node of it, come out unchanged
    has_ops = any(str(n.get('tag', '')) in ('!clear', '!append', '!extend', '!prev') for _, n in tdoc.walk(docs[-1]))
    if len(docs) >= 2 and base[0] == 'ok' and not has_ops:
        before = _build(texts[:-1])
        if before[0] == 'ok' and isinstance(before[1], dict):
            paths = untouched_paths(docs[-1], before[1])
            for p_ in paths:
                try:
                    now = _at(base[1], p_)
                except (KeyError, IndexError, TypeError):
                    raise Violation(f'C05: path {p_} is neither mentioned by the last document nor below a deleting node of it, but it is gone '
                                    f'from the result {base[1]!r} (before the last document: {before[1]!r}){src}')
                if O.canon(now) != O.canon(_at(before[1], p_)):
                    raise Violation(f'C05: path {p_} is neither mentioned by the last document nor below a deleting node of it, but its value '
                                    f'changed from {_at(before[1], p_)!r} to {now!r}{src}')
            if paths:
                labels.add('frame-checked')
                if any(len(p_) >= 2 for p_ in paths):
                    labels.add('frame-path-depth>=2')
    if case.get('rename'):
        ren = {a: b for a, b in case['rename']}
        rtexts = [tdoc.render(rename_doc(d, ren)) for d in docs]
        renamed = _build(rtexts)
        labels.add('keys-renamed')
        if any('.' in b or '[' in b for b in ren.values()):
            labels.add('key-renamed-to-the-spelling-of-a-path')
        rsrc = src + f'\nrenaming {ren}:\n' + '\n'.join(rtexts)
        if base[0] == 'ok':
            if renamed[0] != 'ok':
                raise Violation(f'C05: the build gives {base[1]!r}, but with keys renamed injectively ({ren}) it fails with {renamed[1]}{rsrc}')
            if O.canon(renamed[1]) != O.canon(rename_value(base[1], ren)):
                raise Violation(f'C05: with keys renamed injectively ({ren}) the result is {renamed[1]!r}, expected the renamed result '
                                f'{rename_value(base[1], ren)!r}{rsrc}')
        else:
            if renamed[0] == 'ok':
                raise Violation(f'C05: the build fails with {base[1]}, but with keys renamed injectively ({ren}) it succeeds: {renamed[1]!r}{rsrc}')
            if renamed[1] != base[1]:
                raise Violation(f'C05: the build fails with {base[1]}, with keys renamed injectively ({ren}) with {renamed[1]}{rsrc}')
    if sib is not None:
        labels.add('sibling')
        stexts = [tdoc.render(d) for d in sib['docs']]
        alone = _build(stexts)
        cdocs = []
        for i, wd in enumerate(wdocs):
            wd = {**wd, 'items': list(wd['items'])}
            if i in sib['pos']:
                sd = sib['docs'][sib['pos'].index(i)]
                wd['items'].append([sib['key'], sd])
            cdocs.append(wd)
        ctexts = [tdoc.render(d) for d in cdocs]
        comb = _build(ctexts)
        csrc = src + '\nsibling sources:\n' + '\n'.join(stexts) + '\ncombined sources:\n' + '\n'.join(ctexts)
        if base[0] == 'ok' and alone[0] == 'ok':
            if comb[0] != 'ok':
                raise Violation(f'C05: both parts build alone but combined under sibling keys the build fails with {comb[1]}{csrc}')
            k0 = chain[0]
            got_k = comb[1].get(k0, '<missing>')
            exp_k = wrapped[1].get(k0, '<missing>') if isinstance(wrapped[1], dict) else '<missing>'
            if O.canon(got_k) != O.canon(exp_k):
                raise Violation(f'C05: value at {k0!r} changed from {exp_k!r} to {got_k!r} when unrelated sibling content was added{csrc}')
            # the sibling key may be missing from the first position it is written in if the stage is not the first: compare values
            got_s = comb[1].get(sib['key'], '<missing>')
            first_sib_root_del = any(d.get('del') is True for d in sib['docs'])
            if O.canon(got_s) != O.canon(alone[1]):
                if not (first_sib_root_del and not alone[1] and got_s == '<missing>'):
                    raise Violation(f'C05: sibling value at {sib["key"]!r} is {got_s!r} but built alone it is {alone[1]!r}{csrc}')
        elif comb[0] == 'ok':
            raise Violation(f'C05: a part fails alone ({base}, {alone}) but the combination builds: {comb[1]!r}{csrc}')
    return Outcome(nontrivial=nt, labels=sorted(labels))


def sample_repr(case):
    return {'chain': case['chain'], 'docs': [tdoc.render(d) for d in case['docs']]}
