"""C11 - evaluation yields plain python data and leaves the source tree reusable.

Validity walk over the result mirrored against the merged source tree, snapshot invariants over a history of
re-evaluations and mutations of the evaluated config (op list, shrinks as one value).
"""
import copy
import functools
import pathlib

from hypothesis import strategies as st

import vfrec
from .. import tdoc, strategies as S, observe as O
from ..core import Violation, Outcome

ID = 'C11'
TITLE = 'results are plain data, the source stays reusable'
RULE = ('merged trees from 1-3 stages over priority/!del/!merge tags (keys incl. underscore and ints) with dynamic leaves injected (!call, !bind, '
        '!eval (also one that changes the tree under evaluation through its context), f-string, !xref, !path, !import, !null) and a history of up to 8 steps: re-evaluate the kept source, mutate the evaluated '
        'config (set / delete / append / nested / attribute assignment / update / pop / clear / attribute reads), deep-copy it, with fresh contexts or '
        'one shared user-supplied EvalContext; non-trivial = >=1 dynamic node, depth >=2 and >=1 '
        'mutation followed by a re-evaluation; distinct = hash of the case')
BUDGET = {'quick': (4, 300), 'thorough': (16, 5000)}
ASSUMPTIONS = ['mappings returned by user callables are not required to be attribute-accessible dicts',
               'builds that fail for merge reasons are skipped (counted)']

DYN = ['eval', 'evallist', 'fstr', 'xref', 'import', 'null']     # !call/!bind live under dedicated keys, see _case


@st.composite
def _inject(draw, node, ctr):
    out = dict(node)
    if node['t'] == 'map':
        out['items'] = [[k, draw(_inject(v, ctr))] for k, v in node['items']]
    elif node['t'] == 'seq':
        out['items'] = [draw(_inject(v, ctr)) for v in node['items']]
    elif draw(st.integers(0, 3)) == 0:
        kind = draw(st.sampled_from(DYN))
        ctr[0] += 1
        fl = {k: node[k] for k in ('prio',) if k in node}
        if kind in ('call', 'bind'):
            n = tdoc.mp([('x', tdoc.sc(ctr[0])), ('y', tdoc.sq([tdoc.sc(1)], flow=True))], flow=True, tag=f'!{kind}:vfrec.call_{ctr[0]}')
        elif kind == 'eval':
            n = tdoc.raw(f'{ctr[0]} + 1', '!eval', q='dq')
        elif kind == 'evallist':
            n = tdoc.raw("[1, {'k': (2, 3)}, 'x']", '!eval', q='dq')
        elif kind == 'fstr':
            n = tdoc.raw('v{1 + 1}', '!fstr', q='dq')
        elif kind == 'xref':
            n = tdoc.raw('anchor.deep', '!xref')
        elif kind == 'path':
            n = tdoc.sq([tdoc.sc('a'), tdoc.sc('b')], flow=True, tag='!path')
        elif kind == 'pathabs':
            n = tdoc.sq([tdoc.sc('y')], flow=True, tag='!path:abs(/x)')
        elif kind == 'import':
            n = tdoc.raw(draw(st.sampled_from(['math.pi', 'os.path.join', 'collections.OrderedDict'])), '!import')
        else:
            n = {'t': 'empty', 'tag': '!null'}
        if fl and n.get('tag', '').startswith(('!call', '!bind', '!eval', '!xref', '!null')):
            n.update(fl)
            n['mdstyle'] = 'braces'
        return n
    return out


@st.composite
def _case(draw):
    # no string leaves in the colliding part: a string merged onto a !call/!bind node renames its target by design (C13)
    leaves = S.scalar_or_timestamp(st.one_of(st.none(), st.booleans(), st.integers(-3, 9), st.sampled_from([1.5, -0.5])), one_in=20)
    docs = draw(S.tagged_stages(min_stages=1, max_stages=3, new=False, density=4, max_leaves=8, leaves=leaves))
    ctr = [0]
    docs = [draw(_inject(d, ctr)) for d in docs]
    # function nodes under keys no other stage writes (mappings / strings merged onto them update arguments / rename the target: C13)
    for _ in range(draw(st.integers(0, 2))):
        ctr[0] += 1
        kind = draw(st.sampled_from(['call', 'bind', 'path', 'pathabs']))
        if kind == 'path':
            fn = tdoc.sq([tdoc.sc('a'), tdoc.sc('b')], flow=True, tag='!path')
        elif kind == 'pathabs':
            fn = tdoc.sq([tdoc.sc('y')], flow=True, tag='!path:abs(/x)')
        else:
            fn = tdoc.mp([('x', tdoc.sc(ctr[0])), ('y', tdoc.sq([tdoc.sc(1)], flow=True))], flow=True, tag=f'!{kind}:vfrec.call_{ctr[0]}')
            if kind == 'bind' and draw(st.booleans()):
                # a target with named parameters (b0, b1 positional-or-keyword, k0 keyword-only), its children named after them
                fn = tdoc.mp([('b0', tdoc.sc(ctr[0])), ('b1', tdoc.sq([tdoc.sc(True)], flow=True)), ('k0', tdoc.sc(2.5))][:draw(st.integers(1, 3))],
                             flow=True, tag='!bind:vfrec.sig_0_2_1_1_0_0_c11')
        if draw(st.booleans()):
            fn = tdoc.mp([('c', fn), ('l', tdoc.sq([tdoc.mp([('z', tdoc.sc(0))], flow=True, tag=f'!bind:vfrec.call_{ctr[0] + 100}')]))])
        docs[draw(st.integers(0, len(docs) - 1))]['items'].append([f'dyn{ctr[0]}', fn])
    for d in docs:      # in every stage, so that a deleting stage root cannot leave the references dangling
        d['items'] = [kv for kv in d['items'] if kv[0] not in ('anchor', 'strs')]
        d['items'].append(['anchor', tdoc.mp([('deep', tdoc.sq([tdoc.sc(1), tdoc.sc(2)], flow=True))], flow=True)])
    # a reference written before its (mutable) target, in the first and in the last document
    for d in (docs[0], docs[-1]):
        d['items'] = [['fwd', tdoc.raw('anchor.deep', '!xref')]] + [kv for kv in d['items'] if kv[0] != 'fwd']
    hook = draw(st.integers(0, 2)) == 0
    if hook:
        # a dynamic node whose code reaches into the tree that is being evaluated (through the evaluation context) and changes it:
        # 'hooked' stands before it, so it has been evaluated by then - the change only shows where the tree is used again
        for d in docs:
            d['items'] = [['hooked', tdoc.sq([], flow=True)], ['hook', tdoc.raw("ayns.ctx.cfg['hooked'].append(1) or 5", '!eval', q='dq')]] + \
                [kv for kv in d['items'] if kv[0] not in ('hooked', 'hook')]
    docs[0]['items'].append(['strs', tdoc.sq([tdoc.sc('s'), tdoc.sc('', q='single'), tdoc.sc('yes', q='double'), tdoc.sc('multi\nline')])])
    ops = draw(st.lists(st.tuples(st.sampled_from(['reeval', 'set', 'del', 'append', 'nested', 'attr', 'deepcopy', 'reeval', 'update', 'pop', 'clear', 'read']),
                                  st.integers(0, 9), st.integers(0, 9)), min_size=1, max_size=8))
    return {'docs': docs, 'ops': [list(o) for o in ops], 'ndyn': ctr[0] + (1 if hook else 0), 'shared_ctx': draw(st.booleans()), 'hook': hook}


def strategy():
    return _case()


import datetime
BUILTIN_SCALARS = (int, float, bool, str, type(None), datetime.date, datetime.datetime)      # (the last two: what yaml timestamps are)


def _no_nodes(v, where, src, seen=None):
    from awesomeyaml.nodes.node import ConfigNode
    seen = seen if seen is not None else set()
    if id(v) in seen:
        return
    seen.add(id(v))
    if isinstance(v, ConfigNode):
        raise Violation(f'C11: an awesomeyaml node leaked into the result at {where}: {v!r}{src}')
    if isinstance(v, dict):
        for k, x in v.items():
            _no_nodes(k, where + ' (key)', src, seen)
            _no_nodes(x, f'{where}[{k!r}]', src, seen)
    elif isinstance(v, (list, tuple, set, frozenset)):
        for i, x in enumerate(v):
            _no_nodes(x, f'{where}[{i}]', src, seen)
    elif isinstance(v, functools.partial):
        _no_nodes(v.func, where + '.func', src, seen)
        _no_nodes(v.args, where + '.args', src, seen)
        _no_nodes(v.keywords, where + '.keywords', src, seen)


def mirror(node, val, path, src):
    """Walk the merged source tree and the evaluated value in parallel."""
    from awesomeyaml.nodes.dict import ConfigDict
    from awesomeyaml.nodes.list import ConfigList
    from awesomeyaml.nodes.node import ConfigNode
    from awesomeyaml.utils import Bunch
    tn = type(node).__name__
    if type(node) is ConfigDict:
        if not isinstance(val, Bunch):
            raise Violation(f'C11: mapping node at {path} evaluated to {type(val).__name__}, not an attribute-accessible dict{src}')
        keys = [k.ayns.native_value if isinstance(k, ConfigNode) else k for k in node.ayns.children_names()]
        if O.canon(keys) != O.canon(list(val.keys())):
            raise Violation(f'C11: keys at {path}: result {list(val.keys())!r} vs merged tree {keys!r}{src}')
        for k, child in node.ayns.named_children():
            kk = k.ayns.native_value if isinstance(k, ConfigNode) else k
            if isinstance(kk, str) and kk.isidentifier() and not kk.startswith('_'):
                if getattr(val, kk) is not val[kk]:
                    raise Violation(f'C11: cfg.{kk} is not cfg[{kk!r}] at {path}{src}')
            mirror(child, val[kk], path + [kk], src)
    elif type(node) is ConfigList:
        if type(val) is not list:
            raise Violation(f'C11: list node at {path} evaluated to {type(val).__name__}{src}')
        if len(val) != node.ayns.children_count():
            raise Violation(f'C11: list at {path} has {len(val)} elements, merged tree has {node.ayns.children_count()}{src}')
        for i, child in enumerate(node.ayns.children()):
            mirror(child, val[i], path + [i], src)
    elif tn == 'BindNode':
        # a partial holds the children of the node as they are written: integer keys (a gap-free run from 0) positionally, names as keywords
        if not isinstance(val, functools.partial):
            raise Violation(f'C11: !bind node at {path} evaluated to {type(val).__name__}, not a functools.partial{src}')
        names = [k.ayns.native_value if isinstance(k, ConfigNode) else k for k in node.ayns.children_names()]
        ints = sorted(k for k in names if isinstance(k, int) and not isinstance(k, bool))
        strs = [k for k in names if isinstance(k, str)]
        if ints == list(range(len(ints))) and len(ints) + len(strs) == len(names):
            if len(val.args) != len(ints) or sorted(val.keywords) != sorted(strs):
                raise Violation(f'C11: !bind node at {path} has positional children {ints} and named children {strs}, but the partial holds '
                                f'args={val.args!r} keywords={val.keywords!r}{src}')
            for k, child in node.ayns.named_children():
                kk = k.ayns.native_value if isinstance(k, ConfigNode) else k
                mirror(child, val.args[kk] if isinstance(kk, int) else val.keywords[kk], path + [kk], src)
    elif tn.startswith('ConfigScalar('):
        if type(val) not in BUILTIN_SCALARS:
            raise Violation(f'C11: scalar node at {path} evaluated to {type(val).__name__} ({val!r}), not an exact builtin type{src}')
        if O.canon(val) != O.canon(node.ayns.native_value):
            raise Violation(f'C11: scalar at {path} evaluated to {val!r}, node holds {node.ayns.native_value!r}{src}')
        if isinstance(val, datetime.date) and _WRITTEN_TS.get('set') is not None and val not in _WRITTEN_TS['set']:
            # (an independent witness for timestamps: the value PyYAML reads from the text some document wrote - zone included)
            raise Violation(f'C11: timestamp at {path} evaluated to {val!r}, which no document wrote (written: {sorted(map(repr, _WRITTEN_TS["set"]))}){src}')


_WRITTEN_TS = {'set': None}


def snapshot(tree):
    out = []
    for p, n in tree.ayns.nodes_with_paths(include_self=True):
        try:
            val = n.ayns.native_value if type(n).__name__.startswith('ConfigScalar(') else None
        except Exception:
            val = None
        out.append((str(p), type(n).__name__, repr(val), repr(sorted(O.flags(n).items(), key=str)), getattr(n.ayns, 'func', None) if hasattr(n, '_func') else None))
    return out


def cmp_repr(v):
    """canonical form tolerant to objects (partials, paths, functions): typed structure + repr of leaves"""
    if isinstance(v, functools.partial):
        return ['partial', repr(v.func), cmp_repr(list(v.args)), cmp_repr(dict(v.keywords))]
    if isinstance(v, dict):
        return ['d', [[cmp_repr(k), cmp_repr(x)] for k, x in v.items()]]
    if isinstance(v, (list, tuple)):
        return [type(v).__name__, [cmp_repr(x) for x in v]]
    return O.canon(v)


def run_case(case):
    from awesomeyaml import Config
    texts = [tdoc.render(d) for d in case['docs']]
    src = '\nsources:\n' + '\n'.join(texts)
    vfrec.reset()
    from awesomeyaml import EvalContext
    # one user-supplied evaluation context reused for every evaluation of the case, or a fresh default one each time
    ctx = EvalContext() if case.get('shared_ctx') else None
    status, cfg = O.try_call(lambda: Config.build(*texts, raw_yaml=True, eval_ctx=ctx))
    if status != 'ok':
        if type(cfg).__name__ in ('MergeError', 'PremergeError'):
            return Outcome(labels=['skip-merge-error'])
        raise Violation(f'C11: build failed unexpectedly: {type(cfg).__name__}: {str(cfg)[:500]}{src}')
    _WRITTEN_TS['set'] = {tdoc.plain(n) for d in case['docs'] for _, n in tdoc.walk(d) if n['t'] == 'raw' and n.get('res')}
    source = cfg.ayns.source
    snap0 = snapshot(source)
    _no_nodes(cfg, 'cfg', src)
    mirror(source, cfg, [], src)
    first = cmp_repr(cfg)
    labels = {'tree-changing-eval' if case.get('hook') else 'no-tree-changing-eval', 'dyn=%d' % min(case['ndyn'], 4), 'stages=%d' % len(texts), 'ctx=' + ('shared' if ctx is not None else 'fresh')}
    mutated = False
    nontrivial = False
    hist = []
    removed_keys = []

    def containers(v, path=()):
        out = [(path, v)]
        if isinstance(v, dict):
            for k, x in v.items():
                if isinstance(x, (dict, list)):
                    out += containers(x, path + (k,))
        elif isinstance(v, list):
            for i, x in enumerate(v):
                if isinstance(x, (dict, list)):
                    out += containers(x, path + (i,))
        return out

    for op, a, b in case['ops']:
        hist.append(op)
        labels.add('op=' + op)
        if op == 'reeval':
            again = Config(source, eval_ctx=ctx)
            _no_nodes(again, 'cfg(re-evaluated)', src)
            if cmp_repr(again) != first:
                raise Violation(f'C11: evaluating the kept source again gives {again!r}, the first evaluation gave {first!r} (history {hist}){src}')
            if mutated and case['ndyn'] >= 1 and max(tdoc.depth(d) for d in case['docs']) >= 2:
                nontrivial = True
        elif op == 'deepcopy':
            c2 = copy.deepcopy(cfg)
            if not mutated and cmp_repr(c2) != first:
                raise Violation(f'C11: deepcopy of the evaluated config differs from it{src}')
        else:
            conts = containers(cfg)
            path, c = conts[a % len(conts)]
            try:
                if op == 'set':
                    if isinstance(c, dict):
                        c['zz%d' % b] = {'new': [b]}
                    elif c:
                        c[b % len(c)] = 'changed'
                elif op == 'del':
                    if isinstance(c, dict) and c:
                        del c[list(c)[b % len(c)]]
                    elif isinstance(c, list) and c:
                        del c[b % len(c)]
                elif op == 'append':
                    if isinstance(c, list):
                        c.append({'appended': b})
                    else:
                        c.setdefault('lst', []).append(b)
                elif op == 'nested':
                    for k in (list(c) if isinstance(c, dict) else range(len(c))):
                        if isinstance(c[k], list):
                            c[k].insert(0, 'front')
                            break
                        if isinstance(c[k], dict):
                            c[k]['deep'] = b
                            break
                elif op == 'attr':
                    if isinstance(c, dict):
                        setattr(c, 'attr%d' % b, b)
                elif op == 'read':
                    # read every entry through attribute access (what user code does all the time)
                    for _, cc in conts:
                        if isinstance(cc, dict):
                            for k in list(cc):
                                if isinstance(k, str) and k.isidentifier() and not k.startswith('_'):
                                    getattr(cc, k)
                elif op == 'update':
                    if isinstance(c, dict) and c:
                        c.update({list(c)[b % len(c)]: ['updated', b]})
                elif op == 'pop':
                    if isinstance(c, dict) and c:
                        removed_keys.append((c, list(c)[b % len(c)]))
                        c.pop(list(c)[b % len(c)])
                elif op == 'clear':
                    if isinstance(c, dict) and path:
                        removed_keys.extend((c, k) for k in list(c))
                        c.clear()
            except (ValueError, TypeError, AttributeError):
                pass        # e.g. name conflicts of the bunch pattern: not the subject here
            mutated = True
            # the mappings of the result stay attribute-accessible dicts whatever dict method changed them
            from awesomeyaml.utils import Bunch
            for p_, cc in containers(cfg):
                if isinstance(cc, Bunch):
                    for k in list(cc):
                        if isinstance(k, str) and k.isidentifier() and not k.startswith('_'):
                            if getattr(cc, k) is not cc[k]:
                                raise Violation(f'C11: after {hist}: cfg{list(p_)}.{k} is {getattr(cc, k)!r} but cfg{list(p_)}[{k!r}] is {cc[k]!r}{src}')
            for cc, k in removed_keys:
                if isinstance(k, str) and k.isidentifier() and not k.startswith('_') and k not in cc and hasattr(cc, k):
                    raise Violation(f'C11: after {hist}: entry {k!r} was removed from a mapping of the result but is still readable as an attribute{src}')
        snap = snapshot(source)
        if snap != snap0:
            diff = [(x, y) for x, y in zip(snap0, snap) if x != y][:3]
            raise Violation(f'C11: the kept source tree changed after {hist} (first differences: {diff}){src}')
    return Outcome(nontrivial=nontrivial, labels=sorted(labels))


def sample_repr(case):
    return {'docs': [tdoc.render(d) for d in case['docs']], 'ops': case['ops']}
