"""C12 - !eval and f-strings compute what Python computes, with config names visible; builds are independent.

Differential oracle: CPython's own exec/eval over {config values, symbols} in the same process.
"""
import builtins
import sys

from hypothesis import strategies as st

from .. import tdoc, observe as O, progs
from ..core import Violation, Outcome, HarnessError

ID = 'C12'
TITLE = '!eval / f-strings == CPython, build histories independent'
RULE = ('programs from a grammar (arithmetic/conditional expressions, assignments, def with defaults, closures, lambdas, list/dict/set/generator '
        'comprehensions, if/elif/else, for/while with break/else, try/except/else/finally, with, import, class bodies, global, >255 names) over '
        'four name pools with shadowing (own definitions, symbols, config keys - plain or !eval -, builtins); f-strings in all spellings; '
        'with and without a source file name; histories of 1-3 builds in one process with different config values and symbols and a '
        'namespace-survival probe; non-trivial = >=2 distinct non-local names from >=2 pools, or a jump construct, or a nested code object; '
        'distinct = hash of the case')
BUDGET = {'quick': (4, 1500), 'thorough': (16, 30000)}
CRASH_GUARD = True
SHRINK_CAP = {'quick': 400, 'thorough': 5000}
ASSUMPTIONS = ['the last line is a one-line expression, possibly behind statements that share the line',
               'exceptions are compared by class through the cause chain of the EvalError']


@st.composite
def _case(draw):
    prog = draw(progs.program())
    ints = [k for k, v in prog['cfg'] if v[0] != 'list'] + [k for k, v in prog['symbols'].items() if v[0] == 'int']
    lists = [k for k, v in prog['cfg'] if v[0] == 'list' and k not in prog['symbols']]
    fs = draw(progs.fstring(sorted(set(ints)), lists)) if draw(st.integers(0, 2)) == 0 else None
    nb = draw(st.sampled_from([1, 1, 2, 2, 3]))
    return {
        'prog': prog, 'fstr': fs, 'filename': draw(st.booleans()), 'probe': draw(st.booleans()),
        'style': draw(st.sampled_from(['block', 'block', 'dq'])), 'pos': draw(st.integers(0, 5)),
        'deltas': [0] + [draw(st.integers(1, 5)) for _ in range(nb - 1)],
        'drop_symbols_later': draw(st.booleans()),
        # one EvalContext object reused for every build of the history (its symbols then stay the same, only the config changes)
        'reuse_ctx': draw(st.integers(0, 2)) == 0,
    }


def strategy():
    return _case()


PROBE = ['try:', '    cnt_probe = cnt_probe + 1', 'except NameError:', '    cnt_probe = 0']


def _lines(case):
    lines = list(case['prog']['lines'])
    if case['probe']:
        lines = PROBE + lines[:-1] + [f'({lines[-1]}) + cnt_probe * 1000']
    if case['prog'].get('shared_last_line'):
        lines = lines[:-2] + [lines[-2] + '; ' + lines[-1]]      # the statement in front of the final expression shares its line
    return lines


def _spec_value(spec, delta):
    if spec[0] == 'int':
        return spec[1] + delta
    if spec[0] == 'list':
        return [x + delta for x in spec[1]]
    if spec[0] == 'eval':
        return eval(spec[1]) + delta
    if spec[0] == 'func':
        return (lambda x: x * 2) if spec[1] == 'double' else (lambda x: x + 1)
    raise HarnessError(spec)


def _doc(case, delta):
    items = []
    for k, spec in case['prog']['cfg']:
        if spec[0] == 'eval':
            items.append([k, tdoc.raw(f'{spec[1]} + {delta}', '!eval', q='dq')])
        elif spec[0] == 'list':
            items.append([k, tdoc.sq([tdoc.sc(x + delta) for x in spec[1]], flow=True)])
        else:
            items.append([k, tdoc.sc(spec[1] + delta)])
    code = '\n'.join(_lines(case))
    node = tdoc.raw(code, '!eval', q='block' if case['style'] == 'block' or '"' in code or '\\' in code else 'dq')
    if len(_lines(case)) == 1 and case['style'] != 'block':
        node = tdoc.raw(code, '!eval', q='dq')
    items.insert(min(case['pos'], len(items)), ['r', node])
    fs = case['fstr']
    if fs is not None:
        sp, q, body = fs['spelling'], fs['quote'], fs['body']
        if sp == 'f-plain':
            n = tdoc.raw('f' + q + body + q, '!fstr', q='verbatim')
        elif sp == 'implicit':
            n = {'t': 'raw', 'text': 'f' + q + body + q, 'q': 'verbatim'}
        elif sp == 'dq':
            n = tdoc.raw(body, '!fstr', q='dq')
        elif sp == 'sq':
            n = tdoc.raw("'" + body.replace("'", "''") + "'", '!fstr', q='verbatim')
        else:
            n = tdoc.raw(body, '!fstr', q='verbatim')
        items.append(['fs', n])
    return tdoc.mp(items)


def _native(case, delta, with_symbols, sym_delta=None):
    sd = delta if sym_delta is None else sym_delta
    g = {}
    for k, spec in case['prog']['cfg']:
        g[k] = _spec_value(spec, delta)
    if with_symbols:
        for k, spec in case['prog']['symbols'].items():
            g[k] = _spec_value(spec, sd)
    lines = _lines(case)
    out = {}
    # what python computes: everything but the final expression statement executed, that expression evaluated (it may share its line
    # with statements in front of it)
    import ast
    tree = ast.parse('\n'.join(lines), '<native>', 'exec')
    final = tree.body.pop()
    if not isinstance(final, ast.Expr):
        raise HarnessError('generated program does not end with an expression')
    try:
        exec(compile(tree, '<native>', 'exec'), g)
        out['r'] = ('ok', eval(compile(ast.Expression(final.value), '<native>', 'eval'), g))
    except Exception as e:      # noqa
        out['r'] = ('err', type(e))
    fs = case['fstr']
    if fs is not None:
        g2 = {}
        for k, spec in case['prog']['cfg']:
            g2[k] = _spec_value(spec, delta)
        if with_symbols:
            for k, spec in case['prog']['symbols'].items():
                g2[k] = _spec_value(spec, sd)
        try:
            out['fs'] = ('ok', eval("f'''" + fs['body'] + "'''", g2))
        except Exception as e:      # noqa
            out['fs'] = ('err', type(e))
    return out


def _reset_process_state():
    from awesomeyaml.eval_context import EvalContext
    for m in [m for m in sys.modules if m.startswith('awesomeyaml.eval_node_namespace')]:
        del sys.modules[m]
    EvalContext._default_eval_symbols = {}


def run_case(case):
    from awesomeyaml import Config, EvalContext
    from awesomeyaml.errors import EvalError
    _reset_process_state()
    prog = case['prog']
    labels = set('kind=' + k for k in prog['kinds'])
    labels.add('builds=%d' % len(case['deltas']))
    labels.add('filename' if case['filename'] else 'no-filename')
    if case['fstr'] is not None:
        labels.add('fstr=' + case['fstr']['spelling'])
    pools = set(prog['pools'])
    jump = any(k in prog['kinds'] for k in ('if', 'for', 'while', 'try', 'with', 'conditional-expr'))
    nested = any(k in prog['kinds'] for k in ('def', 'closure', 'lambda', 'comprehension', 'class'))
    nontrivial = len(pools) >= 2 or (jump and pools) or (nested and pools) or len(case['deltas']) >= 2
    for p in pools:
        labels.add('pool=' + p)
    shared = None
    if case.get('reuse_ctx'):
        shared = EvalContext(eval_symbols={k: _spec_value(s, 0) for k, s in prog['symbols'].items()})
        labels.add('context-reused')
    for i, delta in enumerate(case['deltas']):
        with_symbols = not (i > 0 and case['drop_symbols_later']) or shared is not None
        doc = _doc(case, delta)
        text = tdoc.render(doc)
        expected = _native(case, delta, with_symbols, sym_delta=0 if shared is not None else None)
        symbols = {k: _spec_value(s, 0 if shared is not None else delta) for k, s in prog['symbols'].items()} if with_symbols else {}
        kw = {'filename': 'cfg_c12.yaml'} if case['filename'] else {}
        status, got = O.try_call(lambda: Config.build(text, raw_yaml=True, eval_ctx=shared if shared is not None else EvalContext(eval_symbols=symbols), **kw))
        src = f'\nbuild #{i + 1} of {len(case["deltas"])} (filename={"cfg_c12.yaml" if case["filename"] else None}, symbols={sorted(symbols)}):\n{text}'
        if expected['r'][0] == 'err' or expected.get('fs', ('ok',))[0] == 'err':
            labels.add('native-raises')
            want = expected['r'][1] if expected['r'][0] == 'err' else expected['fs'][1]
            if status == 'ok':
                raise Violation(f'C12: native python raises {want.__name__} but the build returned {O.to_builtin(got)!r}{src}')
            if not isinstance(got, EvalError):
                raise Violation(f'C12: native python raises {want.__name__}; expected an EvalError carrying it, got {type(got).__name__}: {got}{src}')
            chain = O.exc_chain(got)
            if not any(isinstance(e, want) for e in chain):
                raise Violation(f'C12: EvalError does not carry the original {want.__name__} in its cause chain ({[type(e).__name__ for e in chain]}){src}')
            continue
        if status != 'ok':
            raise Violation(f'C12: native python computes r={expected["r"][1]!r} but the build failed with {type(got).__name__}: {str(got)[:600]}{src}')
        if O.canon(got['r']) != O.canon(expected['r'][1]):
            raise Violation(f'C12: !eval node gives {got["r"]!r}, native exec/eval gives {expected["r"][1]!r}{src}')
        if 'fs' in expected and O.canon(got['fs']) != O.canon(expected['fs'][1]):
            raise Violation(f'C12: f-string node gives {got["fs"]!r}, python gives {expected["fs"][1]!r}{src}')
    return Outcome(nontrivial=nontrivial, labels=sorted(labels))


def sample_repr(case):
    return {'doc': tdoc.render(_doc(case, 0)), 'symbols': case['prog']['symbols'], 'builds': len(case['deltas'])}
