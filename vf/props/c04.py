"""C04 - !del / list replacement is exact; !merge makes it element-wise; !clear empties; value-less !del removes the key.

Four sub-checks with direct oracles (no priorities in a,c,d; survivors computed per leaf in b).
"""
import yaml
from hypothesis import strategies as st

import vfrec
from .. import tdoc, strategies as S, observe as O
from ..core import Violation, Outcome, HarnessError

ID = 'C04'
TITLE = '!del / list replacement exact, !merge element-wise, !clear empties'
RULE = ('older tree (plain mappings/lists/scalars, optionally !call nodes as entries) x newer document holding one focus node at depth 0-3 '
        'whose path follows existing keys (key names biased to coincide with ancestor key names): (a) !del mapping or list focus without '
        'priorities -> exact content, pruned !call nodes never run; (b) same with !force older leaves or a !weak focus -> exactly the strictly '
        'higher-priority entries survive; (c) !merge focus on mapping/list -> key-/index-wise, half of them shaped after the older subtree; '
        '(d) !clear / value-less !del; (e) a list with !force elements replaced by a newer list -> protected elements and un-outranked newer '
        'elements all present (validity predicate and, since R61, the exact positions); (f) several elements of one list removed by '
        'value-less !del and replaced in one document (mapping with indices from either end, or !merge list) -> simultaneous edit. In (a) and (c) the focus may also meet an older '
        'list or scalar. '
        'non-trivial = focus depth >=1, or a protected survivor, or a key coinciding with an ancestor key; distinct = hash of the case')
BUDGET = {'quick': (4, 1500), 'thorough': (16, 10000)}
ASSUMPTIONS = ['focus paths never run through or end at a function node (Call <- dict updates arguments by design)',
               'protected survivors whose path runs through a non-mapping of the newer content are not generated',
               'an explicit !del on an empty container removes the key like a value-less !del does (the idiom of the repository\'s own fixtures); an explicit !del on a falsy scalar (0, false, \'\') is content']

KEYS = ['a', 'b', 'c', 'x', '_u', 0, 1, -1]
LEAF = S.scalar_node(st.one_of(st.integers(0, 9), st.sampled_from(['s', 't', '', 1.5, True, None])))


@st.composite
def _older(draw, depth=0, calls=None, protect=False):
    """Mapping AST; entries: scalar, list, mapping, or a !call node (if calls is a counter list)."""
    n = draw(st.integers(1, 3))
    keys = draw(st.lists(st.sampled_from(KEYS), min_size=n, max_size=n, unique=True))
    items = []
    for k in keys:
        c = draw(st.integers(0, 7))
        if c <= 2 and depth < 3:
            v = draw(_older(depth + 1, calls, protect))
        elif c == 3:
            v = tdoc.sq([draw(LEAF) for _ in range(draw(st.integers(0, 3)))], flow=draw(st.booleans()))
        elif c == 4 and calls is not None:
            calls[0] += 1
            v = tdoc.mp([('id', tdoc.sc(calls[0]))], flow=True, tag=f'!call:vfrec.call_{calls[0]}')
        elif c == 5 and calls is not None:
            calls[0] += 1
            v = tdoc.sq([tdoc.mp([('id', tdoc.sc(calls[0]))], flow=True, tag=f'!call:vfrec.call_{calls[0]}')], flow=True)
        else:
            v = draw(LEAF)
            if protect and draw(st.integers(0, 2)) == 0:
                v['prio'] = 1
        items.append([k, v])
    return tdoc.mp(items, flow=False)


def _is_call(n):
    return str(n.get('tag', '')).startswith('!call')


@st.composite
def _focus_path(draw, older, end_any=False):
    """Follow existing mapping keys for 0-3 steps (never through call nodes / lists); with end_any the last step may land
    on a list or scalar entry (a deleting / merging node of one kind meeting an older node of another kind)."""
    path = []
    cur = older
    for _ in range(draw(st.sampled_from([0, 1, 1, 2, 2, 3]))):
        cands = [(k, v) for k, v in cur['items'] if v['t'] == 'map' and not _is_call(v)]
        if not cands:
            break
        k, v = cands[draw(st.integers(0, len(cands) - 1))]
        path.append(k)
        cur = v
    if end_any and draw(st.integers(0, 2)) == 0:
        cands = [k for k, v in cur['items'] if v['t'] in ('seq', 'sc') and not _is_call(v)]
        if cands:
            path.append(cands[draw(st.integers(0, len(cands) - 1))])
    return path


@st.composite
def _content(draw, ancestors, depth=0, kind=None, inner_prio=False):
    """Plain content of the focus; keys biased towards ancestor key names.  inner_prio: priority tags on nodes below
    the focus (at most one per path) so that the newer side has different priorities at different relative paths."""
    kind = kind or draw(st.sampled_from(['map', 'map', 'seq']))
    if kind == 'seq' and inner_prio and depth == 0:
        kind = 'map'
    if kind == 'seq':
        return tdoc.sq([draw(LEAF) if depth or draw(st.booleans()) else draw(_content(ancestors, depth + 1, 'map'))
                        for _ in range(draw(st.integers(0, 3)))], flow=draw(st.booleans()))
    pool = [k for k in ancestors if isinstance(k, str)] * 2 + KEYS
    n = draw(st.integers(1, 3))
    keys = draw(st.lists(st.sampled_from(pool), min_size=n, max_size=n, unique=True))
    items = []
    for k in keys:
        tag = inner_prio and draw(st.integers(0, 2)) == 0
        if depth < 2 and draw(st.integers(0, 2)) == 0:
            v = draw(_content(ancestors + [k], depth + 1, None, inner_prio and not tag))
        else:
            v = draw(LEAF)
        if tag:
            v['prio'] = draw(st.sampled_from([1, -1]))
        items.append([k, v])
    return tdoc.mp(items, flow=draw(st.booleans()))


@st.composite
def _mirror(draw, old, depth=0):
    """Newer content shaped after the older subtree: a subset of its keys (recursing into containers, so that lists and
    mappings of the newer side meet older ones of the same kind at depth), lists shorter or longer than the older ones, and
    the odd new key."""
    if old['t'] == 'seq' and not _is_call(old):
        n = draw(st.integers(0, len(old['items']) + 1))
        return tdoc.sq([draw(LEAF) for _ in range(n)], flow=draw(st.booleans()))
    if old['t'] != 'map' or _is_call(old):
        return draw(LEAF)
    items = []
    for k, v in old['items']:
        if _is_call(v) or draw(st.integers(0, 3)) == 0:
            continue
        items.append([k, draw(_mirror(v, depth + 1))])
    if not items or draw(st.integers(0, 2)) == 0:
        k = draw(st.sampled_from(KEYS))
        if not any(k == kk and type(k) is type(kk) for kk, _ in old['items']) and not any(k == kk for kk, _ in items):
            items.append([k, draw(LEAF)])
    if not items:
        items.append(['zq', draw(LEAF)])
    return tdoc.mp(items, flow=draw(st.booleans()))


def _wrap(path, node, extras=None):
    cur = node
    for i, k in enumerate(reversed(path)):
        items = [(k, cur)]
        cur = tdoc.mp(items)
    return cur


@st.composite
def _case(draw):
    mode = draw(st.sampled_from(['a', 'a', 'a', 'b', 'b', 'b', 'c', 'c', 'd', 'd', 'e', 'f']))
    calls = [0] if mode == 'a' else None
    older = draw(_older(0, calls, protect=(mode == 'b')))
    path = draw(_focus_path(older, end_any=mode in ('a', 'c')))
    if mode == 'c' and draw(st.integers(0, 2)) == 0:
        # the !merge focus meets an older list: prefer lists with at least two elements
        def seq_paths(n, pre):
            out = []
            if n['t'] == 'map' and not _is_call(n):
                for k, v in n['items']:
                    if v['t'] == 'seq' and len(v['items']) >= 1 and not any(_is_call(x) for x in v['items']):
                        out.append((pre + [k], len(v['items'])))
                    out += seq_paths(v, pre + [k])
            return out
        sp = seq_paths(older, [])
        big = [p_ for p_, n_ in sp if n_ >= 2] or [p_ for p_, _ in sp]
        if big:
            path = big[draw(st.integers(0, len(big) - 1))]
    case = {'mode': mode, 'older': older, 'path': path}
    if mode == 'f':
        # several elements of one list removed (value-less !del) and replaced in one document: the keys address the list as it was
        n_old = draw(st.integers(2, 5))
        case['old_list'] = [[i + 1, 0] for i in range(n_old)]
        form = draw(st.sampled_from(['map', 'map', 'mergelist']))
        if form == 'map':
            idx = draw(st.lists(st.integers(0, n_old - 1), min_size=2, max_size=4, unique=True))
            idx = draw(st.permutations(idx))
            case['edits'] = [[i - n_old if draw(st.integers(0, 3)) == 0 else i, 'del' if draw(st.integers(0, 2)) else 20 + i] for i in idx]
        else:
            m = draw(st.integers(2, n_old + 1))
            # (a value-less !del where the older list has no element is a '!del at a missing key': not stated, not generated)
            case['edits'] = [[i, 'del' if i < n_old and draw(st.booleans()) else 20 + i] for i in range(m)]
        case['form'] = form
        return case
    if mode == 'e':
        # a list of distinct scalars, some elements !force, replaced by a newer list (directly, or inside a !del mapping)
        n_old = draw(st.integers(1, 4))
        case['old_list'] = [[i + 1, draw(st.sampled_from([0, 0, 1]))] for i in range(n_old)]
        case['new_list'] = [10 + i for i in range(draw(st.integers(0, 5)))]
        case['via'] = draw(st.sampled_from(['list', 'list', 'delmap'])) if path else 'list'
        # some of the newer elements are !weak: they lose against any older element at their index, and stand where nothing stood
        case['new_weak'] = sorted(draw(st.sets(st.integers(0, 5), max_size=2))) if draw(st.integers(0, 2)) == 0 else []
        # the older elements may also be !weak (they never survive; a weak newer element at the same index is the later among equals)
        case['old_weak'] = sorted(draw(st.sets(st.integers(0, 3), max_size=2))) if draw(st.integers(0, 3)) == 0 else []
        # one pair of elements may be containers: an older mapping / list / call node (protected or not) met by a newer list or mapping.
        # The protected older container stays exactly what it is (what is pruned from the newer list must not show up in it)
        if draw(st.integers(0, 3)) == 0:
            # the newer value is a !del mapping whose keys are indices of the older list (also counted from the end): what it does not
            # write goes, what is protected stays where it is, what it writes stands at the index it names
            case['via'] = 'delindex'
            ks = draw(st.lists(st.integers(0, n_old - 1), min_size=1, max_size=n_old, unique=True))
            case['index_keys'] = [[k - n_old if draw(st.integers(0, 3)) == 0 else k, 30 + k, draw(st.sampled_from([0, 0, 0, 1]))] for k in draw(st.permutations(ks))]
            case['new_weak'] = case['old_weak'] = []
            return case
        if path and case['new_list'] and draw(st.integers(0, 2)) == 0:
            # the newer value is a function node whose positional arguments are the newer elements: it takes the list over, element by
            # element as a list would (protected elements keep their index among the arguments)
            case['via'] = 'callpos'
            case['new_weak'] = case['old_weak'] = []
            return case
        m_ = min(n_old, len(case['new_list']))
        if m_ and draw(st.integers(0, 2)) == 0:
            j = draw(st.integers(0, m_ - 1))
            oc = draw(st.sampled_from(['map', 'list', 'call']))
            case['cont'] = {'j': j, 'old': oc, 'force': True if oc == 'call' else draw(st.booleans()),
                            'new': draw(st.sampled_from(['list1', 'list2', 'list3', 'map', 'nested']))}
        return case
    if mode in ('a', 'b'):
        # the focus must be a mapping when it sits at depth 0 (a document root is a mapping)
        weak_focus = mode == 'b' and draw(st.integers(0, 2)) == 0
        focus = draw(_content(list(path), kind=None if path else 'map', inner_prio=(mode == 'b' and not weak_focus)))
        if focus['t'] == 'map':
            focus['del'] = True
            if not focus['items']:
                focus['items'] = [['a', tdoc.sc(1)]]
            if not path and mode == 'a' and draw(st.integers(0, 4)) == 0:
                # a whole document that resets everything: '--- !del {}' (below a key an empty !del mapping is the remove-this-key idiom)
                focus['items'] = []
                focus['flow'] = True
        if weak_focus:
            focus['prio'] = -1
        focus['mdstyle'] = draw(st.sampled_from(['short', 'braces', 'hex']))
        case['focus'] = focus
        if mode == 'b' and draw(st.booleans()):
            # an intermediate stage that raises the priority of an existing container while overwriting only some of its
            # entries: afterwards a container can outrank its own older children (only reachable through a merge history)
            mpaths = [list(p) for p, n in tdoc.walk(older) if n['t'] == 'map' and not _is_call(n) and p
                      and not any(_is_call(_get(older, list(p[:i]))) for i in range(len(p)))]
            if mpaths:
                mp_ = mpaths[draw(st.integers(0, len(mpaths) - 1))]
                tgt = _get(older, mp_)
                ks = [k for k, _ in tgt['items']] + [draw(st.sampled_from(KEYS))]
                if list(path[:len(mp_)]) == mp_ and len(path) > len(mp_):
                    ks = [k for k in ks if k != path[len(mp_)]] or ['zq']       # never overwrite the mapping the focus path runs through
                chosen = draw(st.lists(st.sampled_from(ks), min_size=1, max_size=2, unique=True))
                case['mid'] = {'path': mp_, 'items': [[k, 50 + i] for i, k in enumerate(chosen)]}
    elif mode == 'c':
        met_ = _get(older, path)
        if met_['t'] == 'seq' and draw(st.booleans()):
            # a mapping addressing the elements of the older list by index (also from the end, also out of range)
            n_ = len(met_['items'])
            rng = st.integers(-n_, n_ - 1) if n_ and draw(st.integers(0, 3)) else st.integers(-n_ - 1, n_)       # mostly valid indices
            ks = draw(st.lists(rng, min_size=1, max_size=3, unique_by=lambda k: k % n_ if n_ and -n_ <= k < n_ else ('x', k)))
            focus = tdoc.mp([(k, draw(LEAF) if draw(st.booleans()) else tdoc.sq([draw(LEAF)], flow=True)) for k in ks], flow=draw(st.booleans()))
        elif met_['t'] != 'sc' and draw(st.booleans()):
            focus = draw(_mirror(_get(older, path)))        # same shape as the older subtree: containers meet at depth
            case['mirror'] = True
        else:
            focus = draw(_content(list(path), kind=None if path else 'map'))
        focus['del'] = False
        focus['mdstyle'] = draw(st.sampled_from(['short', 'braces']))
        case['focus'] = focus
    else:
        what = draw(st.sampled_from(['clear', 'clear', 'vdel', 'clear-missing', 'clear-scalar', 'clear-elem']))
        case['what'] = what
        if what == 'clear-elem':
            # !clear aimed at a container that is an element of a list, addressed by its index from either end
            case['key'] = 'LL'
            case['elem'] = draw(st.sampled_from([0, 1, -3, -2]))
            return case
        # choose a target below path: existing container / scalar / missing
        cur = older
        for k in path:
            cur = dict(cur['items'])[k] if False else [v for kk, v in cur['items'] if kk == k and type(kk) is type(k)][0]
        conts = [k for k, v in cur['items'] if v['t'] in ('map', 'seq') and not _is_call(v)]
        scal = [k for k, v in cur['items'] if v['t'] == 'sc']
        if what == 'clear' and conts:
            case['key'] = conts[draw(st.integers(0, len(conts) - 1))]
            # !clear is unconditional: protected (!force) entries below the target go too, also when the !clear is !weak, and
            # also when an earlier stage had put an explicit !del container there (three-document history)
            case['clear_weak'] = draw(st.integers(0, 3)) == 0
            case['mid_del'] = draw(st.integers(0, 2)) == 0
            tgt = [v for kk, v in cur['items'] if kk == case['key'] and type(kk) is type(case['key'])][0]
            if draw(st.integers(0, 1)) == 0:
                leaves = [n for p_, n in tdoc.walk(tgt) if p_ and n['t'] == 'sc']
                if leaves:
                    leaves[draw(st.integers(0, len(leaves) - 1))]['prio'] = 1
        elif what == 'clear-scalar' and scal:
            case['key'] = scal[draw(st.integers(0, len(scal) - 1))]
        elif what == 'vdel':
            allk = [k for k, v in cur['items'] if not _is_call(v)]
            if allk:
                case['key'] = allk[draw(st.integers(0, len(allk) - 1))]
                # priorities: an explicit !del that is outranked must leave the (possibly falsy) older entry alone
                case['old_force'] = draw(st.integers(0, 2)) == 0
                case['del_weak'] = draw(st.integers(0, 3)) == 0
                # 'falsy': a scalar like 0 / '' / false is content (the remove-this-key idiom is a value-less !del, or an empty !del container)
                case['del_form'] = draw(st.sampled_from(['valueless', 'valueless', 'scalar', 'falsy', 'falsy', 'empty']))
                case['del_val'] = draw(st.integers(0, 3))
                if draw(st.integers(0, 2)) == 0:
                    # make the older entry falsy (the remove-this-key logic looks at truthiness)
                    tgt = [v for kk, v in cur['items'] if kk == case['key'] and type(kk) is type(case['key'])][0]
                    falsy = draw(st.sampled_from([tdoc.sc(0), tdoc.sc(False), tdoc.sc('', q='single'), tdoc.sc(None), tdoc.mp([], flow=True), tdoc.sq([], flow=True)]))
                    tgt.clear()
                    tgt.update(falsy)
            else:
                case['what'] = 'clear-missing'
                case['key'] = 'zz'
        else:
            case['what'] = 'clear-missing'
            case['key'] = 'zz'
    return case


def strategy():
    return _case()


# ---------------------------------------------------------------------------------------------- reference

def _get(ast, path):
    cur = ast
    for k in path:
        cur = [v for kk, v in cur['items'] if kk == k and type(kk) is type(k)][0]
    return cur


def ev(ast):
    """Expected evaluated value of an AST (call nodes -> what vfrec returns)."""
    if _is_call(ast):
        n = int(ast['tag'].rsplit('_', 1)[1])
        return {'called': n, 'args': [], 'kw': {k: ev(v) for k, v in ast['items']}}
    if ast['t'] == 'map':
        return {k: ev(v) for k, v in ast['items']}
    if ast['t'] == 'seq':
        return [ev(v) for v in ast['items']]
    return tdoc.plain(ast)


def call_ids(ast):
    out = []
    for _, n in tdoc.walk(ast):
        if _is_call(n):
            out.append(int(n['tag'].rsplit('_', 1)[1]))
    return out


def replace_at(older_ev, path, value, remove=False):
    """Copy of evaluated older value with `value` at path."""
    if not path:
        return value
    out = dict(older_ev)
    if len(path) == 1 and remove:
        out.pop(path[0], None)
        return out
    out[path[0]] = replace_at(older_ev[path[0]], path[1:], value, remove)
    return out


def merge_elementwise(a, b_ast):
    """(c): older evaluated value a, newer !merge node b (plain content below)."""
    return _m(a, b_ast, None)


def _m(a, b, inherited):
    """No priorities anywhere.  Delete flag of b: explicit, else inherited, else type default (list: replace, mapping: merge);
    children inherit the explicit flag of their parent, else "replace" below a list, else what the parent inherited."""
    t = b['t']
    if t not in ('map', 'seq'):
        return tdoc.plain(b)
    explicit = b.get('del')
    deleting = explicit if explicit is not None else inherited if inherited is not None else (t == 'seq')
    child_inh = explicit if explicit is not None else (True if t == 'seq' else inherited)
    if deleting or not isinstance(a, (dict, list)):
        return tdoc.plain(b)
    if t == 'map':
        if isinstance(a, dict):
            out = dict(a)
            for k, v in b['items']:
                out[k] = _m(a[k], v, child_inh) if k in a else tdoc.plain(v)
            return out
        out = list(a)
        for k, v in b['items']:
            if not isinstance(k, int) or not (-len(a) <= k < len(a)):
                raise IndexError(k)
            out[k] = _m(out[k], v, child_inh)
        return out
    if isinstance(a, list):
        out = list(a)
        for i, v in enumerate(b['items']):
            if i < len(out):
                out[i] = _m(out[i], v, child_inh)
            else:
                out.append(tdoc.plain(v))
        return out
    out = dict(a)
    for i, v in enumerate(b['items']):
        out[i] = _m(a[i], v, child_inh) if i in a else tdoc.plain(v)
    return out


def _old_list_at(old, rel):
    """True iff the older AST has a list at the relative path (through mappings only)."""
    cur = old
    for k in rel:
        if cur['t'] != 'map' or _is_call(cur):
            return False
        hit = [v for kk, v in cur['items'] if kk == k and type(kk) is type(k)]
        if not hit:
            return False
        cur = hit[0]
    return cur['t'] == 'seq' and len(cur['items']) > 0


class _Skip(Exception):
    pass


def _expected_b(older_focus_ast, focus):
    """Entries of the older subtree at the focus path that survive + focus content.

    An older entry survives iff its priority is strictly higher than that of the newer node at the same relative path,
    or, when the newer content has no node there, of the nearest enclosing newer node."""
    def eff(n, inherited):
        return n['prio'] if n is not None and n.get('prio') is not None else inherited

    def rec(old, new, nprio):
        """old: older AST node or None; new: newer AST node at the same path or None; nprio: priority of the nearest
        existing newer node  ->  (value, has_survivor)"""
        nprio = eff(new, nprio)
        if old is None:
            return tdoc.plain(new), False
        if old['t'] == 'map' and not _is_call(old):
            if new is not None and new['t'] != 'map':
                if any((n.get('prio', 0) or 0) > nprio for _, n in tdoc.walk(old)):
                    raise _Skip()       # a protected entry below a newer non-mapping: not generated
                return tdoc.plain(new), False
            out = {}
            surv = False
            newd = {k: v for k, v in new['items']} if new is not None else {}
            for k, v in old['items']:
                val, s = rec(v, newd.get(k), nprio)
                if s:
                    out[k] = val
                    surv = True
                elif k in newd:
                    out[k] = val
            for k, v in newd.items():
                if k not in out and not any(k == kk for kk, _ in old['items']):
                    out[k] = tdoc.plain(v)
            return out, surv
        # old is a leaf-like entry (scalar, list, call node)
        if old['t'] == 'seq' and new is not None and new['t'] == 'map':
            raise _Skip()       # mapping-onto-list addressing is validated before priorities are looked at (statement silent)
        if (old.get('prio', 0) or 0) > nprio:
            if new is not None and new['t'] == 'map' and any(n.get('prio') is not None for _, n in tdoc.walk(new)):
                raise _Skip()
            return ev(old), True
        if new is None:
            return None, False
        return tdoc.plain(new), False
    return rec(older_focus_ast, focus, 0)


# ---------------------------------------------------------------------------------------------- property body

def _build(texts):
    vfrec.reset()
    st_, res = O.try_call(O.build_config, texts)
    if st_ == 'ok':
        return 'ok', O.to_builtin(res)
    return 'err', res


def apply_mid(older, mid):
    """Older tree after the intermediate stage `path: !force {k: v, ...}` (per-leaf: the written entries now carry
    priority 1, everything else keeps its own; the container's own priority does not matter to a per-leaf oracle)."""
    import copy
    out = copy.deepcopy(older)
    tgt = _get(out, mid['path'])
    for k, v in mid['items']:
        node = tdoc.sc(v, prio=1)
        hit = [i for i, (kk, _) in enumerate(tgt['items']) if kk == k and type(kk) is type(k)]
        if hit:
            tgt['items'][hit[0]][1] = node
        else:
            tgt['items'].append([k, node])
    return out


def mid_doc(mid):
    inner = tdoc.mp([(k, tdoc.sc(v)) for k, v in mid['items']], flow=True, prio=1)
    return _wrap(mid['path'], inner)


def run_case(case):
    mode, older, path = case['mode'], case['older'], case['path']
    t_old = tdoc.render(older)
    if case.get('mid'):
        t_old = t_old + tdoc.render(mid_doc(case['mid']))          # two documents in one source
        older = apply_mid(older, case['mid'])
    old_ev = ev(older)
    labels = {'mode=' + mode, 'focus-depth=%d' % len(path)}
    if case.get('mid'):
        labels.add('three-stage-history')
    nontrivial = len(path) >= 1
    if mode == 'e':
        return _run_e(case, labels)
    if mode == 'f':
        return _run_f(case, labels)
    if mode in ('a', 'b', 'c'):
        focus = case['focus']
        met = _get(older, path)['t']
        if met != 'map':
            labels.add('%s-focus-meets-older-%s' % (focus['t'], {'seq': 'list', 'sc': 'scalar'}[met]))
        anc = set(k for k in path if isinstance(k, str))
        if any(isinstance(p[-1], str) and p[-1] in anc for p, _ in tdoc.walk(focus) if p):
            labels.add('key-coincides-with-ancestor')
            nontrivial = True
        newer = _wrap(path, focus)
        t_new = tdoc.render(newer)
        src = f'\nolder:\n{t_old}\nnewer:\n{t_new}'
        status, got = _build([t_old, t_new])
        if mode == 'a':
            exp_focus = tdoc.plain(focus)
            expected = replace_at(old_ev, path, exp_focus)
            if status != 'ok':
                raise Violation(f'C04a: build failed: {type(got).__name__}: {got}{src}')
            if O.canon_unordered(got) != O.canon_unordered(expected):
                raise Violation(f'C04a: deleting node at {path} must leave exactly its own content {exp_focus!r} there and nothing else changed; '
                                f'got {got!r}, expected {expected!r}{src}')
            pruned = set(call_ids(_get(older, path)))
            ran = set(vfrec.calls())
            if pruned & ran:
                raise Violation(f'C04a: !call nodes {sorted(pruned & ran)} were pruned by the deleting node at {path} but still executed{src}')
            labels.add('focus=' + focus['t'])
            if pruned:
                labels.add('pruned-call-node')
        elif mode == 'b':
            try:
                exp_focus, surv = _expected_b(_get(older, path), focus)
            except _Skip:
                return Outcome(labels=['b-skip-through-nonmapping'])
            if focus['t'] == 'seq':
                # a list focus: survivors inside a mapping cannot be overlaid on a list (not generated)
                if surv:
                    return Outcome(labels=['b-skip-list-focus-with-survivor'])
            expected = replace_at(old_ev, path, exp_focus)
            if status != 'ok':
                raise Violation(f'C04b: build failed: {type(got).__name__}: {got}{src}')
            if O.canon_unordered(got) != O.canon_unordered(expected):
                raise Violation(f'C04b: under the deleting node at {path} exactly the strictly higher-priority older entries survive; '
                                f'got {got!r}, expected {expected!r}{src}')
            if surv:
                labels.add('protected-survivor')
                nontrivial = True
            if focus.get('prio') == -1:
                labels.add('weak-focus')
        else:
            old_at = old_ev
            for k in path:
                old_at = old_at[k]
            try:
                exp_focus = merge_elementwise(old_at, focus)
                expected = replace_at(old_ev, path, exp_focus)
            except IndexError:
                expected = None
            if expected is None:
                if status == 'ok' or type(got).__name__ != 'MergeError':
                    raise Violation(f'C04c: mapping with an invalid index merged onto a list must be a MergeError, got {got!r}{src}')
                labels.add('c-invalid-index')
            else:
                if status != 'ok':
                    raise Violation(f'C04c: build failed: {type(got).__name__}: {got}{src}')
                if O.canon_unordered(got) != O.canon_unordered(expected):
                    raise Violation(f'C04c: !merge node at {path} must combine key-wise / index-wise; got {got!r}, expected {expected!r}{src}')
                labels.add('c-%s-onto-%s' % (focus['t'], type(old_at).__name__))
                deep = [p for p, n in tdoc.walk(focus) if len(p) >= 2 and n['t'] == 'seq' and _old_list_at(_get(older, path), p)]
                if deep:
                    labels.add('c-inherited-merge-list-meets-list-at-depth>=2')
                    nontrivial = True
    elif case.get('what') == 'clear-elem':
        import copy
        older = copy.deepcopy(older)
        holder = _get(older, path)
        if holder['t'] != 'map' or _is_call(holder):
            return Outcome(labels=['d-skip-path-ends-on-non-mapping'])
        holder['items'] = [it for it in holder['items'] if it[0] != 'LL'] + [['LL', tdoc.sq([tdoc.sq([tdoc.sc(1), tdoc.sc(2)], flow=True), tdoc.mp([('k', tdoc.sc(1))], flow=True), tdoc.sc(5)], flow=True)]]
        i = case['elem']
        newer = _wrap(path + ['LL'], tdoc.mp([(i, tdoc.empty(tag='!clear'))], flow=False))
        t_old, t_new = tdoc.render(older), tdoc.render(newer)
        src = f'\nolder:\n{t_old}\nnewer:\n{t_new}'
        status, got = _build([t_old, t_new])
        exp_list = [[1, 2], {'k': 1}, 5]
        exp_list[i] = [] if i in (0, -3) else {}
        expected = replace_at(ev(older), path + ['LL'], exp_list)
        labels.add('d-clear-list-element' + ('-from-the-end' if i < 0 else ''))
        if status != 'ok' or O.canon_unordered(got) != O.canon_unordered(expected):
            raise Violation(f'C04d: !clear at element {i} of the list at {path + ["LL"]} must leave an empty container of the original kind there and '
                            f'nothing else changed; got {got!r}, expected {expected!r}{src}')
        nontrivial = True
    else:
        what, key = case['what'], case['key']
        mid_text = ''
        if what.startswith('clear'):
            node = tdoc.empty(tag='!clear')
            if case.get('clear_weak'):
                node['prio'] = -1
                node['mdstyle'] = 'braces'
            if what == 'clear' and case.get('mid_del'):
                tgt_kind = _get(older, path + [key])['t']
                midn = tdoc.mp([('zq', tdoc.sc(1))], flow=True, **{'del': True}) if tgt_kind == 'map' else tdoc.sq([tdoc.sc(7)], flow=True, **{'del': True})
                mid_text = tdoc.render(_wrap(path + [key], midn))
                labels.add('d-clear-after-explicit-del-stage')
        else:
            form = case.get('del_form', 'valueless')
            falsy_val = [0, False, '', 0.0][case.get('del_val', 0)]
            if form == 'valueless':
                node = tdoc.empty(**{'del': True})
            elif form == 'falsy':
                node = tdoc.sc(falsy_val, q='single' if falsy_val == '' and isinstance(falsy_val, str) else 'plain', **{'del': True})
            elif form == 'empty':
                node = (tdoc.mp if case.get('del_val', 0) % 2 else tdoc.sq)([], flow=True, **{'del': True})
            else:
                node = tdoc.sc(5, **{'del': True})
            if case.get('del_weak'):
                node['prio'] = -1
                node['mdstyle'] = 'braces'
            if case.get('old_force'):
                import copy
                older = copy.deepcopy(older)
                _get(older, path + [key])['prio'] = 1
                t_old = tdoc.render(older)
                old_ev = ev(older)
        newer = _wrap(path + [key], node)
        t_new = tdoc.render(newer)
        src = f'\nolder:\n{t_old}{mid_text}\nnewer:\n{t_new}'
        status, got = _build([t_old + mid_text, t_new])
        labels.add('d-' + what)
        if what == 'clear':
            tgt = _get(older, path + [key])
            expected = replace_at(old_ev, path + [key], {} if tgt['t'] == 'map' else [])
            if status != 'ok' or O.canon_unordered(got) != O.canon_unordered(expected):
                raise Violation(f'C04d: !clear at {path + [key]} must leave an empty container of the original kind; got {got!r}, expected {expected!r}{src}')
        elif what == 'vdel':
            outranked = (1 if case.get('old_force') else 0) > (-1 if case.get('del_weak') else 0)
            if outranked:
                expected = old_ev
                labels.add('d-outranked-del')
                nontrivial = True
            elif case.get('del_form', 'valueless') in ('valueless', 'empty'):
                expected = replace_at(old_ev, path + [key], None, remove=True)
            elif case.get('del_form') == 'falsy':
                expected = replace_at(old_ev, path + [key], falsy_val)
                labels.add('d-explicit-del-with-a-falsy-scalar')
            else:
                expected = replace_at(old_ev, path + [key], 5)
            if status != 'ok' or O.canon_unordered(got) != O.canon_unordered(expected):
                raise Violation(f'C04d: explicit !del at {path + [key]} (outranked by the older entry: {outranked}) must '
                                f'{"leave the older entry alone" if outranked else "remove the key / put its value"}; got {got!r}, expected {expected!r}{src}')
        else:
            if status == 'ok' or type(got).__name__ != 'PremergeError':
                raise Violation(f'C04d: !clear at a {"missing path" if what == "clear-missing" else "scalar"} must be a PremergeError, got {got!r}{src}')
    return Outcome(nontrivial=nontrivial, labels=sorted(labels))


def _run_f(case, labels):
    import copy
    path, old_list, edits, form = case['path'], [v for v, _ in case['old_list']], case['edits'], case['form']
    older = copy.deepcopy(case['older'])
    holder = _get(older, path)
    if holder['t'] != 'map' or _is_call(holder):
        return Outcome(labels=['f-skip-path-ends-on-non-mapping'])
    holder['items'] = [it for it in holder['items'] if it[0] != 'L'] + [['L', tdoc.sq([tdoc.sc(v) for v in old_list], flow=True)]]

    def val(e):
        return tdoc.empty(**{'del': True}) if e == 'del' else tdoc.sc(e)
    if form == 'map':
        node = tdoc.mp([(i, val(e)) for i, e in edits], flow=False)
    else:
        node = tdoc.sq([val(e) for _, e in edits], flow=False, **{'del': False})
    newer = _wrap(path + ['L'], node)
    t_old, t_new = tdoc.render(older), tdoc.render(newer)
    src = f'\nolder:\n{t_old}\nnewer:\n{t_new}'
    status, got = _build([t_old, t_new])
    n = len(old_list)
    result = list(old_list) + [None] * max(0, len(edits) - n)
    gone = set()
    for i, e in edits:
        j = i if i >= 0 else n + i
        if e == 'del':
            gone.add(j)
        else:
            result[j] = e
    expected_list = [v for j, v in enumerate(result) if j not in gone and not (j >= n and v is None)]
    expected = replace_at(ev(older), path + ['L'], expected_list)
    labels.add('f-' + form)
    labels.add('f-removals=%d' % min(3, sum(1 for _, e in edits if e == 'del')))
    if status != 'ok':
        raise Violation(f'C04f: build failed: {type(got).__name__}: {got}{src}')
    if O.canon_unordered(got) != O.canon_unordered(expected):
        raise Violation(f'C04f: elements of the list {old_list} edited in one document ({edits}: value-less !del removes, a value replaces; the '
                        f'indices address the list as it was): expected {expected_list!r}, got {got!r}{src}')
    return Outcome(nontrivial=sum(1 for _, e in edits if e == 'del') >= 2 or any(e == 'del' for _, e in edits[:-1]), labels=sorted(labels))


def _run_e_delindex(case, labels):
    import copy
    path, old_list, keys = case['path'], case['old_list'], case['index_keys']
    older = copy.deepcopy(case['older'])
    holder = _get(older, path)
    holder['items'] = [it for it in holder['items'] if it[0] != 'L'] + [['L', tdoc.sq([tdoc.sc(v, **({'prio': p, 'mdstyle': 'short'} if p else {})) for v, p in old_list], flow=True)]]
    node = tdoc.mp([(k, tdoc.sc(v, **({'prio': 1, 'mdstyle': 'short'} if f else {}))) for k, v, f in keys], flow=True, **{'del': True})
    newer = _wrap(path + ['L'], node)
    t_old, t_new = tdoc.render(older), tdoc.render(newer)
    src = f'\nolder:\n{t_old}\nnewer:\n{t_new}'
    status, got = _build([t_old, t_new])
    n = len(old_list)
    written = {(k if k >= 0 else n + k): (v, f) for k, v, f in keys}
    expected_list = []
    for j, (v, p) in enumerate(old_list):
        if j in written and written[j][1] >= p:
            expected_list.append(written[j][0])         # (the later one among equals)
        elif p > 0:
            expected_list.append(v)
        elif j in written:
            expected_list.append(written[j][0])
    labels.add('e-via-delindex')
    protected = [v for j, (v, p) in enumerate(old_list) if p > 0 and not (j in written and written[j][1] >= p)]
    if protected:
        labels.add('e-delindex-protected-survivor')
    if status != 'ok':
        raise Violation(f'C04e: build failed: {type(got).__name__}: {got}{src}')
    accepted = [expected_list]
    if not protected:
        # nothing of the list is left: the deleting mapping takes its place as it is written (its keys are keys then). Where a forced
        # element is overwritten by a forced value, whether the list is still there to be written into is not stated: either form
        accepted = [{k: v for k, v, f in keys}] + ([expected_list] if any(p > 0 for _, p in old_list) else [])
        expected_list = accepted[0]
        labels.add('e-delindex-replaces-the-list')
    if not any(O.canon_unordered(got) == O.canon_unordered(replace_at(ev(older), path + ['L'], e)) for e in accepted):
        raise Violation(f'C04e: the list {old_list} (value, priority) met by a !del mapping with the index keys {keys} (key, value, forced): what the mapping '
                        f'does not write goes, protected elements stay at their index, what it writes stands at the index named (as the list was): '
                        f'expected {expected_list!r}, got {got!r}{src}')
    return Outcome(nontrivial=bool(protected) and len(protected) < len(expected_list), labels=sorted(labels))


def _run_e(case, labels):
    import copy
    from .. import probes
    if case.get('via') == 'delindex':
        return _run_e_delindex(case, labels)
    path, old_list, new_list, via = case['path'], case['old_list'], case['new_list'], case['via']
    older = copy.deepcopy(case['older'])
    holder = _get(older, path)
    new_weak = set(case.get('new_weak', []))
    old_weak = set(i for i in case.get('old_weak', []) if i < len(old_list) and not old_list[i][1])
    old_list = [[v, (-1 if i in old_weak else p)] for i, (v, p) in enumerate(old_list)]
    old_elems = [tdoc.sc(v, **({'prio': p, 'mdstyle': 'short'} if p else {})) for v, p in old_list]
    new_elems = [tdoc.sc(v, **({'prio': -1, 'mdstyle': 'short'} if i in new_weak else {})) for i, v in enumerate(new_list)]
    cont = case.get('cont')
    if cont and (cont['j'] in new_weak or cont['j'] in old_weak):
        cont = None
    if cont:
        j = cont['j']
        oc = {'map': tdoc.mp([('k', tdoc.sc(100))], flow=True), 'list': tdoc.sq([tdoc.sc(100)], flow=True),
              'call': tdoc.mp([('id', tdoc.sc(100))], flow=True, tag='!call:vfrec.call_77')}[cont['old']]
        if cont['force']:
            oc.update(prio=1, mdstyle='short')
        nc = {'list1': tdoc.sq([tdoc.sc(200)], flow=True), 'list2': tdoc.sq([tdoc.sc(200), tdoc.sc(201)], flow=True),
              'list3': tdoc.sq([tdoc.sc(200), tdoc.sc(201), tdoc.sc(202)], flow=True), 'map': tdoc.mp([('q', tdoc.sc(200))], flow=True),
              'nested': tdoc.sq([tdoc.sq([tdoc.sc(200), tdoc.sc(201)], flow=True), tdoc.sc(202)], flow=True)}[cont['new']]
        old_elems[j], new_elems[j] = oc, nc
        old_list[j] = [ev(oc), 1 if cont['force'] else 0]
        new_list = list(new_list)
        new_list[j] = ev(nc)
        labels.add('e-container-elements')
        if cont['force']:
            labels.add('e-protected-container-meets-newer-' + ('mapping' if cont['new'] == 'map' else 'list'))
    holder['items'] = [it for it in holder['items'] if it[0] != 'L'] + [['L', tdoc.sq(old_elems, flow=True)]]
    lst = tdoc.sq(new_elems, flow=True)
    new_prio = [(-1 if i in new_weak else 0) for i in range(len(new_list))]
    if via == 'callpos':
        cont = None
        lst = tdoc.sq([tdoc.sc(v) for v in new_list], flow=True, tag='!call:vfrec.call_78')
    if via in ('list', 'callpos'):
        newer = _wrap(path + ['L'], lst)
    else:
        newer = _wrap(path, tdoc.mp([('L', lst)], flow=False, **{'del': True}))
    t_old, t_new = tdoc.render(older), tdoc.render(newer)
    src = f'\nolder:\n{t_old}\nnewer:\n{t_new}'
    probes.install()
    probes.counters['prefilter_drops'] = probes.counters['partial_list_prune'] = 0
    status, got = _build([t_old, t_new])
    if status != 'ok':
        raise Violation(f'C04e: build failed: {type(got).__name__}: {got}{src}')
    old_ev = ev(older)
    protected = [v for i, (v, p) in enumerate(old_list) if p > (new_prio[i] if i < len(new_list) else 0)]
    must_new = [v for i, v in enumerate(new_list) if not (i < len(old_list) and old_list[i][1] > new_prio[i])]
    may_new = [v for v in new_list if v not in must_new]
    got_at = got
    try:
        for k in path + ['L']:
            got_at = got_at[k]
    except (KeyError, TypeError, IndexError):
        got_at = None
    if via == 'callpos':
        labels.add('e-via-function-node-with-positional-arguments')
        if not (isinstance(got_at, dict) and got_at.get('called') == 78 and got_at.get('kw') == {}):
            raise Violation(f'C04e: the list replaced by a function node: expected the result of call 78 at the place, got {got_at!r}{src}')
        got = replace_at(got, path + ['L'], list(got_at['args']))
        got_at = list(got_at['args'])
    # everything around the list: exactly as for any other replacement
    frame_expected = replace_at(old_ev, path + ['L'], 'LIST') if via in ('list', 'callpos') else replace_at(old_ev, path, {'L': 'LIST'})
    frame_got = replace_at(got, path + ['L'], 'LIST') if got_at is not None else got
    labels.add('e-via-' + via)
    labels.add('e-protected=%d' % min(len(protected), 2))
    if new_weak & set(range(len(new_list))):
        labels.add('e-weak-newer-elements')
    nontrivial = bool(protected)
    if cont:
        # (values that are containers: the exact comparison below says everything)
        key = lambda x: repr(O.canon(x))
        protected, must_new, may_new = [key(x) for x in protected], [key(x) for x in must_new], [key(x) for x in may_new]
        got_keys = [key(x) for x in got_at] if isinstance(got_at, list) else None
    ok = (isinstance(got_at, list) and O.canon_unordered(frame_got) == O.canon_unordered(frame_expected)
          and (cont or all(type(x) is int for x in got_at)) and len(set(got_keys if cont else got_at)) == len(got_at)
          and set(protected) <= set(got_keys if cont else got_at) and set(must_new) <= set(got_keys if cont else got_at)
          and set(got_keys if cont else got_at) <= set(protected) | set(must_new) | set(may_new))
    # ... and since R61 (positions are kept while the lists are merged) also where: index by index the protected older element or else the
    # newer one, then the protected older elements beyond the end of the newer list, in their order
    exact = [old_list[j][0] if (j < len(old_list) and old_list[j][1] > new_prio[j]) else new_list[j] for j in range(len(new_list))] + \
        [v for j, (v, p) in enumerate(old_list) if j >= len(new_list) and p > 0]
    if ok and O.canon(O.to_builtin(got_at)) != O.canon(exact):
        raise Violation(f'C04e: list {[v for v, _ in old_list]} with !force elements {protected} replaced by {new_list}: every element is there, but not '
                        f'where it belongs: got {got_at!r}, expected {exact!r} (a protected element keeps its index, the newer elements theirs){src}')
    if not ok:
        fid = None      # (until R61 the index-shift behaviour was an open finding, attributed by a model of it and a probe)
        raise Violation(f'C04e: list {[v for v, _ in old_list]} with !force elements {protected} replaced by {new_list}: the result must hold the protected '
                        f'older elements, every newer element that is not outranked at its index ({must_new}) and nothing else of the older list; '
                        f'got {got_at!r} (whole config {got!r}){src}', finding=fid)
    if protected:
        labels.add('e-protected-elements-and-newer-content-both-present')
    return Outcome(nontrivial=nontrivial, labels=sorted(labels))


def sample_repr(case):
    out = {'mode': case['mode'], 'path': case['path'], 'older': tdoc.render(case['older'])}
    if case['mode'] == 'e':
        out.update(old_list=case['old_list'], new_list=case['new_list'], via=case['via'])
    if case['mode'] == 'f':
        out.update(old_list=case['old_list'], edits=case['edits'], form=case['form'])
    if 'focus' in case:
        out['newer'] = tdoc.render(_wrap(case['path'], case['focus']))
    return out
