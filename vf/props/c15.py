"""C15 - merge laws: deterministic, idempotent, empty-neutral, key-order neutral, flag-neutral (!unsafe / !new).

Metamorphic relations between builds of the implementation; every relation is evaluated on plain(Builder.build()).
"""
from hypothesis import strategies as st

from .. import tdoc, strategies as S, observe as O
from ..core import Violation, Outcome
from .. import probes

ID = 'C15'
TITLE = 'merge laws'
RULE = ('stage sequences of 1-4 documents over priority / !del / !merge tags at any depth (value-less and empty explicit !del excluded: the '
        'intentionally non-idempotent remove-this-key idiom); relations: build twice, repeat last document, insert {} at every position, '
        'permute keys of every mapping, add !unsafe/!new markers on random nodes; non-trivial = >=2 stages with a deleting node or priority '
        'tag, and the transformation touches a container at depth >=1; distinct = hash of the case')
BUDGET = {'quick': (4, 350), 'thorough': (16, 6000)}
SHRINK_CAP = {'quick': 300, 'thorough': 5000}
ASSUMPTIONS = ['a mapping merged onto a list in which two keys spell the same element (1 and -2) writes that element twice: the key-permutation relation is skipped for such builds (detected by a probe on the list merge), and so is a failing repeat-last relation when the repeated document has negative keys and such a collision occurred (the second pass applies the first of the two values to the outcome of the last one)',
               'soundness limits of DESIGN.md section 6']


@st.composite
def _perm(draw, node):
    out = dict(node)
    if node['t'] == 'map':
        items = [[k, draw(_perm(v))] for k, v in node['items']]
        out['items'] = draw(st.permutations(items)) if len(items) > 1 else items
        out['items'] = [list(x) for x in out['items']]
    elif node['t'] == 'seq':
        out['items'] = [draw(_perm(v)) for v in node['items']]
    return out


@st.composite
def _mark(draw, node, depth=0, p=3):
    out = dict(node)
    hit = False
    if draw(st.integers(0, p)) == 0:
        which = draw(st.sampled_from(['unsafe', 'new', 'both']))
        if which in ('unsafe', 'both'):
            out['unsafe'] = True
        if which in ('new', 'both'):
            out['new'] = True
        if 'mdstyle' not in out:
            out['mdstyle'] = draw(st.sampled_from(['short', 'braces', 'hex']))
        hit = True
    if node['t'] == 'map':
        out['items'] = [[k, draw(_mark(v, depth + 1, p))] for k, v in node['items']]
    elif node['t'] == 'seq':
        out['items'] = [draw(_mark(v, depth + 1, p)) for v in node['items']]
    return out


@st.composite
def _case(draw):
    # explicit !merge below a list triggers the open finding 'list-prefilter-partial-survivor'; the main campaign excludes it by
    # construction, one case in eight keeps producing it
    mil = draw(st.integers(0, 7)) == 0
    # negative integer keys (list elements counted from the end) in half of the cases; where two keys of one mapping then spell the
    # same element the key-permutation relation is skipped (see probes.py)
    negk = draw(st.booleans())
    docs = draw(S.tagged_stages(min_stages=1, max_stages=4, keys=S.MERGE_KEYS if negk else S.MERGE_KEYS_NONEG, neg=negk, new=False, density=3, merge_in_list=mil))
    perm = [draw(_perm(d)) for d in docs]
    # marker density: a marker on a root re-derives the inherited flags of the whole document
    marked = [draw(_mark(d, 0, draw(st.sampled_from([0, 3, 8])))) for d in docs]
    return {'docs': docs, 'perm': perm, 'marked': marked}


def strategy():
    return _case()


def _build(texts):
    st_, res = O.try_call(O.build_nodes, texts)
    if st_ == 'ok':
        return ['ok', O.plain(res) if res is not None else None]
    return ['err', type(res).__name__]


def run_case(case):
    return _run_case(case)


def _run_case(case):
    docs = case['docs']
    texts = [tdoc.render(d) for d in docs]
    base = _build(texts)
    src = '\nsources:\n' + '\n'.join(texts)
    labels = {f'stages={len(docs)}', 'base-' + base[0]}
    tagged_deep = False
    for d in docs:
        for p, n in tdoc.walk(d):
            if n.get('del') is True or n['t'] == 'seq' or n.get('prio') is not None:
                tagged_deep = True
    nontrivial = len(docs) >= 2 and tagged_deep

    def same(a, b, ordered=True):
        if a[0] != b[0]:
            return False
        if a[0] == 'err':
            return a[1] == b[1]
        return (O.canon(a[1]) == O.canon(b[1])) if ordered else (O.canon_unordered(a[1]) == O.canon_unordered(b[1]))

    # determinism
    again = _build(texts)
    if not same(base, again):
        raise Violation(f'C15[determinism]: two builds of the same sources differ: {base!r} vs {again!r}{src}')
    # idempotence: repeat the last document
    probes.install()
    probes.counters['prefilter_drops'] = 0
    probes.counters['partial_list_prune'] = 0
    probes.counters['list_onto_surviving_mapping'] = 0
    probes.counters['colliding_index_keys'] = 0
    _build(texts)
    rep = _build(texts + [texts[-1]])
    neg_last = any(isinstance(p[-1], int) and p[-1] < 0 for p, _ in tdoc.walk(docs[-1]) if p)
    if not same(base, rep) and neg_last and probes.installed['collision'] and probes.counters['colliding_index_keys']:
        # the repeated document spells one list element with two keys (0 and -2 on a list of two) and so writes it twice: the second
        # pass applies the first of the two values to the outcome of the last one - not a repetition of one statement (as for the key
        # permutation below, where such documents are skipped for the same reason)
        labels.add('idempotence-skipped:two-keys-spell-one-list-element')
    elif not same(base, rep):
        # open finding: attributed only when, in these builds, a list merge left partial survivors (root cause): the list pre-filter
        # dropped nodes of the newer value, or the pruning of an older list removed some but not all of its elements
        fid = 'list-prefilter-partial-survivor' if (probes.counters['prefilter_drops'] or probes.counters['partial_list_prune']
                                                    or probes.counters['list_onto_surviving_mapping']) else None
        if fid is None and same(base, rep, ordered=False) and any(n.get('del') is True and n['t'] == 'map' for _, n in tdoc.walk(docs[-1])):
            # second open finding: the data are equal, only the order of keys differs, and the repeated document holds a !del mapping
            # (a key it removes and writes again keeps its place the first time if protected descendants kept it alive, and moves to the end otherwise)
            fid = 'del-rewritten-key-order'
        raise Violation(f'C15[idempotence]: repeating the last document changes the result from {base!r} to {rep!r}{src}', finding=fid)
    # empty-neutral
    for pos in range(len(texts) + 1):
        t2 = texts[:pos] + ['--- {}\n'] + texts[pos:]
        r = _build(t2)
        if not same(base, r):
            raise Violation(f'C15[empty-neutral]: inserting an empty mapping document at position {pos} changes the result from {base!r} to {r!r}{src}')
    # key permutation
    ptexts = [tdoc.render(d) for d in case['perm']]
    probes.counters['list_index_clipped'] = 0
    probes.counters['colliding_index_keys'] = 0
    _build(texts)
    r = _build(ptexts)
    has_neg = any(isinstance(p[-1], int) and p[-1] < 0 for d in docs for p, _ in tdoc.walk(d) if p)
    if has_neg and (probes.counters['colliding_index_keys'] or not probes.installed['collision']):
        labels.add('permutation-skipped:two-keys-spell-one-list-element')
    elif not same(base, r, ordered=False):
        # open finding: attributed only when, in one of the two builds, an element was written beyond the end of a list that the
        # merge had pruned before (its index is then clipped, so the outcome depends on the order in which the keys arrive)
        fid = 'mapping-onto-pruned-list' if probes.counters['list_index_clipped'] else None
        raise Violation(f'C15[key-permutation]: permuting keys changes the result from {base!r} to {r!r}{src}\npermuted sources:\n' + '\n'.join(ptexts), finding=fid)
    # flag neutral
    mtexts = [tdoc.render(d) for d in case['marked']]
    r = _build(mtexts)
    if not same(base, r):
        raise Violation(f'C15[flag-neutral]: adding !unsafe/!new markers changes the result from {base!r} to {r!r}{src}\nmarked sources:\n' + '\n'.join(mtexts))
    # ... and with a marker on every single node (each of the three marker kinds in turn, chosen by the case hash)
    def mark_all(n, which):
        out = dict(n)
        if which in (0, 2):
            out['new'] = True
        if which in (1, 2):
            out['unsafe'] = True
        out.setdefault('mdstyle', 'braces')
        if n['t'] == 'map':
            out['items'] = [[k, mark_all(v, which)] for k, v in n['items']]
        elif n['t'] == 'seq':
            out['items'] = [mark_all(v, which) for v in n['items']]
        return out
    which = len(texts[0]) % 3
    atexts = [tdoc.render(mark_all(d, which)) for d in docs]
    r = _build(atexts)
    if not same(base, r):
        raise Violation(f'C15[flag-neutral]: marking every node {["!new", "!unsafe", "!new and !unsafe"][which]} changes the result from {base!r} to {r!r}{src}')
    if mtexts != texts:
        labels.add('marked')
    if ptexts != texts:
        labels.add('permuted')
    if probes.counters['prefilter_drops']:
        labels.add('list-prefilter-dropped-nodes')
    if probes.counters['partial_list_prune']:
        labels.add('older-list-partly-pruned')
    return Outcome(nontrivial=nontrivial, labels=sorted(labels))


def sample_repr(case):
    return {'docs': [tdoc.render(d) for d in case['docs']], 'marked': [tdoc.render(d) for d in case['marked']]}
