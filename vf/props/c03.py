"""C03 - the highest-priority writer wins, the latest among equals; metadata combined under the same rule.

Oracle (independent of any merge model): per leaf path, winner = arg max over writers of (effective priority, stage index),
effective priority = nearest enclosing priority tag of that stage's document (else 0).  Metadata: pairwise fold in stage
order, "the winner's value wins on a common key", no key lost.
"""
from hypothesis import strategies as st

from .. import tdoc, strategies as S, observe as O
from ..core import Violation, Outcome

ID = 'C03'
TITLE = 'priorities: highest priority wins, latest among equals'
RULE = ('a random skeleton of mapping paths (depth <=4); 2-5 stages each writing a random subset of its leaves (unique marker scalars or '
        'lists of scalars as atomic values) with !force/!weak on leaves, on enclosing mappings or on the root (at most one priority tag per '
        'root-to-leaf path) and user metadata on every writer; in a third of the cases a mapping or a (tagged) scalar of one stage is used again through a yaml alias under '
        'a further key, directly or below a tagged wrapper; non-trivial = a leaf path with >=3 writers of >=2 distinct priorities, or a '
        'container tag >=2 levels above a leaf it decides; distinct = hash of the case')
BUDGET = {'quick': (4, 600), 'thorough': (16, 10000)}
ASSUMPTIONS = ['a priority tag below a tagged container is overridden by the outer one ("a priority tag on a container applies to everything below it")',
               'lists are atomic values: no tags inside list leaves']

KEYS = ['a', 'b', 'c', '_u', 0, 1]


@st.composite
def _skeleton(draw, depth=0):
    """nested dict: key -> sub-skeleton | 'leaf'"""
    n = draw(st.integers(1, 3))
    keys = draw(st.lists(st.sampled_from(KEYS), min_size=n, max_size=n, unique=True))
    out = []
    for k in keys:
        if depth < 3 and draw(st.integers(0, 2)) == 0:
            out.append([k, draw(_skeleton(depth + 1))])
        else:
            out.append([k, 'leaf'])
    return out


@st.composite
def _stage(draw, skel, stage_idx, counter, tagged_above=False, top=True, pool=False):
    items = []
    for k, sub in skel:
        if draw(st.integers(0, 3)) == 0:
            continue        # this stage does not write below k
        fl = {}
        tagged = tagged_above
        if not tagged_above and draw(st.integers(0, 3)) == 0:
            fl['prio'] = draw(st.sampled_from([1, -1]))
            tagged = True
        elif tagged_above and draw(st.integers(0, 9)) == 0:
            # a tag below a tagged container: "a priority tag on a container applies to everything below it" - the outer one decides
            fl['prio'] = draw(st.sampled_from([1, -1]))
            fl['nested'] = True
        if draw(st.integers(0, 2)) == 0:
            fl['md'] = {draw(S.MD_KEYS): f's{stage_idx}.{counter[0]}'}
            fl['mdstyle'] = draw(st.sampled_from(['braces', 'hex']))
        elif fl:
            fl['mdstyle'] = draw(st.sampled_from(['short', 'braces']))
        if sub == 'leaf':
            counter[0] += 1
            marker = stage_idx * 1000 + counter[0]
            if pool:
                # values from a tiny pool: different stages restate the very same value (the writer still matters for priority and metadata)
                marker = draw(st.sampled_from([5, 7]))
            kind = draw(st.integers(0, 3))
            if kind == 0:
                ln = draw(st.integers(0, 3))
                node = tdoc.sq([tdoc.sc(marker * 10 + j) for j in range(ln if not pool else 1)], flow=draw(st.booleans()))
            elif kind == 1:
                node = tdoc.sc(f'm{marker}', q=draw(S.QUOTES))
            else:
                node = tdoc.sc(marker)
            node.update(fl)
            items.append([k, node])
        else:
            node = draw(_stage(sub, stage_idx, counter, tagged, False, pool))
            node.update(fl)
            items.append([k, node])
    return tdoc.mp(items, flow=(not top) and draw(st.booleans()))


@st.composite
def _case(draw):
    skel = draw(_skeleton())
    n = draw(st.integers(2, 5))
    pool = draw(st.integers(0, 2)) == 0
    docs = []
    for i in range(n):
        counter = [0]
        d = draw(_stage(skel, i + 1, counter, False, True, pool))
        if draw(st.integers(0, 5)) == 0:
            d['prio'] = draw(st.sampled_from([1, -1]))
            # root tag: mostly remove the inner priority tags ("one tag per path"); where they stay, the root tag decides
            keep_inner = draw(st.integers(0, 3)) == 0
            for p, nn in tdoc.walk(d):
                if p and not keep_inner:
                    nn.pop('prio', None)
        docs.append(d)
    if draw(st.integers(0, 2)) == 0:
        # yaml alias: a mapping of one stage is used again under a further top-level key of that stage, directly or inside a tagged
        # wrapper - the copy takes its priority from where it stands (and from the tags it carries itself), the original keeps its own
        i = draw(st.integers(0, n - 1))
        # (... or a scalar, tagged or not: a tagged scalar is data with a tag, each place has its own)
        cands = [nn for p, nn in tdoc.walk(docs[i]) if p and ((nn['t'] == 'map' and nn['items']) or nn['t'] == 'sc')]
        if cands:
            tgt = cands[draw(st.integers(0, len(cands) - 1))]
            tgt['anchor'] = 'n0'
            al = {'t': 'alias', 'name': 'n0'}
            tagged_inside = any(nn.get('prio') is not None for _, nn in tdoc.walk(tgt))
            wrap = None if (tagged_inside or docs[i].get('prio') is not None) else draw(st.sampled_from([None, 1, 1, -1]))
            if wrap is None:
                docs[i]['items'].append(['zal', al])
            else:
                docs[i]['items'].append(['zal', tdoc.mp([('k', al)], flow=False, prio=wrap, mdstyle='short')])
    return {'docs': docs, 'pool': pool}


@st.composite
def _wild_value(draw, ctr, depth=0):
    c = draw(st.integers(0, 5 if depth < 3 else 1))
    fl = {}
    if draw(st.integers(0, 2)) == 0:
        fl['prio'] = draw(st.sampled_from([1, -1]))
    if c <= 1:
        ctr[0] += 1
        node = tdoc.sc(ctr[0])
    elif c <= 3:
        node = tdoc.sq([draw(_wild_value(ctr, depth + 1)) for _ in range(draw(st.integers(0, 3)))], flow=True)
    elif c == 4:
        keys = draw(st.lists(st.sampled_from(['x', 'y', 0, 1, 2, -1]), max_size=3, unique=True))
        node = tdoc.mp([(k, draw(_wild_value(ctr, depth + 1))) for k in keys], flow=True)
    else:
        ctr[1] += 1
        keys = draw(st.lists(st.sampled_from(['x', 'y', 0, 1]), max_size=2, unique=True))
        node = tdoc.mp([(k, draw(_wild_value(ctr, depth + 1))) for k in keys], flow=True, tag=f'!call:vfrec.call_{ctr[1]}')
    if node['t'] != 'sc' and draw(st.integers(0, 2)) == 0:
        fl['del'] = draw(st.booleans())
    if fl:
        fl['mdstyle'] = 'short' if len(fl) == 1 else 'braces'
        node.update(fl)
    return node


@st.composite
def _wild_case(draw):
    # lists in lists, lists meeting mappings and function nodes, every mix of priority and !del / !merge tags, in 2-3 stages: there is
    # no model of where everything ends up, but whatever the merged config holds has been written by a stage (see _run_wild)
    ctr = [0, 0]
    docs = []
    for _ in range(draw(st.integers(2, 3))):
        d = tdoc.mp([(k, draw(_wild_value(ctr, 1))) for k in draw(st.lists(st.sampled_from(['a', 'b']), min_size=1, max_size=2, unique=True))], flow=False)
        if draw(st.integers(0, 4)) == 0:
            d.update(prio=draw(st.sampled_from([1, -1])), mdstyle='short')
        docs.append(d)
    return {'wild': True, 'docs': docs}


def strategy():
    return st.one_of(_case(), _case(), _case(), _wild_case())


def _leaves(x, out):
    if isinstance(x, dict):
        for v in x.values():
            _leaves(v, out)
    elif isinstance(x, (list, tuple)):
        for v in x:
            _leaves(v, out)
    else:
        out.append(x)
    return out


def _run_wild(case):
    import vfrec
    docs = case['docs']
    texts = [tdoc.render(d) for d in docs]
    written = [n['v'] for d in docs for _, n in tdoc.walk(d) if n['t'] == 'sc']
    labels = {'wild', f'stages={len(docs)}'}
    vfrec.reset()
    status, cfg = O.try_call(O.build_config, texts)
    src = '\nsources:\n' + '\n'.join(texts)
    if status != 'ok':
        # (a mapping key that is no index of the list it meets, an argument a target cannot take, ...: rejected, nothing to say)
        labels.add('wild-rejected=' + type(cfg).__name__)
        return Outcome(nontrivial=False, labels=sorted(labels))
    call_ids = {int(n['tag'].rsplit('_', 1)[1]) for d in docs for _, n in tdoc.walk(d) if str(n.get('tag', '')).startswith('!call:vfrec.call_')}
    # what a call returns: {'called': id, 'args': [...], 'kw': {...}} - the id is no written scalar
    def strip(x):
        if isinstance(x, dict) and set(x) == {'called', 'args', 'kw'} and x['called'] in call_ids:
            return {'args': strip(x['args']), 'kw': strip(x['kw'])}
        if isinstance(x, dict):
            return {k: strip(v) for k, v in x.items()}
        if isinstance(x, (list, tuple)):
            return [strip(v) for v in x]
        return x
    got = _leaves(strip(O.to_builtin(cfg)), [])
    invented = [x for x in got if not (type(x) is int and x in written)]
    if invented:
        raise Violation(f'C03: the merged config holds {invented!r}, which no stage has written (every value is the one written by some stage); '
                        f'config: {O.to_builtin(cfg)!r}{src}')
    dup = sorted({x for x in got if got.count(x) > 1})
    if dup:
        raise Violation(f'C03: the value(s) {dup!r}, written once, stand at several places of the merged config {O.to_builtin(cfg)!r}{src}')
    if any(n['t'] == 'seq' and any(m['t'] != 'sc' for m in n['items']) for d in docs for _, n in tdoc.walk(d)):
        labels.add('wild-containers-inside-lists')
    return Outcome(nontrivial=len(got) > 0 and any(n.get('prio') for d in docs for _, n in tdoc.walk(d)), labels=sorted(labels))


def _writers(doc, stage):
    """-> {leaf path: (prio, stage, value, md)}, {container path: (prio, stage, md)}"""
    leaves, conts = {}, {}
    anchors = {n['anchor']: n for _, n in tdoc.walk(doc) if n.get('anchor')}

    def rec(n, path, prio):
        if n['t'] == 'alias':
            # the content of the anchor, as if written here: priority from this place unless the content carries tags of its own
            return rec({k: v for k, v in anchors[n['name']].items() if k != 'anchor'}, path, prio)
        if n.get('prio') is not None and prio == 0:
            prio = n['prio']
        elif n.get('prio') is not None:
            prio = prio     # outer tag already applies (not generated)
        md = dict(n.get('md') or {})
        if n['t'] == 'map':
            conts[path] = (prio, stage, md)
            for k, v in n['items']:
                rec(v, path + (k,), prio)
        else:
            leaves[path] = (prio, stage, tdoc.plain(n), md)
    rec(doc, (), 0)
    return leaves, conts


def run_case(case):
    if case.get('wild'):
        return _run_wild(case)
    docs = case['docs']
    texts = [tdoc.render(d) for d in docs]
    leaf_writers, cont_writers = {}, {}
    for i, d in enumerate(docs):
        lv, ct = _writers(d, i)
        for p, w in lv.items():
            leaf_writers.setdefault(p, []).append(w)
        for p, w in ct.items():
            cont_writers.setdefault(p, []).append(w)
    # expected values and metadata
    exp_val, exp_md = {}, {}
    nontrivial = False
    labels = {f'stages={len(docs)}'}
    if case.get('pool'):
        labels.add('restated-values')
    def _nested(n, above=False):
        here = n.get('prio') is not None
        if here and above:
            return True
        kids = [v for _, v in n['items']] if n['t'] == 'map' else []
        return any(_nested(k, above or here) for k in kids)
    if any(_nested(d) for d in docs):
        labels.add('priority-tag-below-a-tagged-container')
    if any(nn['t'] == 'alias' for d in docs for _, nn in tdoc.walk(d)):
        labels.add('yaml-alias-of-a-mapping' if any(nn.get('anchor') and nn['t'] == 'map' for d in docs for _, nn in tdoc.walk(d)) else 'yaml-alias-of-a-scalar')
        if any(k == 'zal' and v['t'] == 'map' for d in docs for k, v in d['items']):
            labels.add('alias-below-a-tagged-wrapper')
            nontrivial = True
    for p, ws in leaf_writers.items():
        cur = ws[0]
        md = dict(cur[3])
        for w in ws[1:]:
            if w[0] >= cur[0]:
                md = {**md, **w[3]}
                cur = w
            else:
                md = {**w[3], **md}
        exp_val[p] = cur[2]
        exp_md[p] = md
        prios = {w[0] for w in ws}
        if len(ws) >= 3 and len(prios) >= 2:
            nontrivial = True
            labels.add('3+writers-2+prios')
        labels.add('writers=%d' % min(len(ws), 5))
        if any(isinstance(w[2], list) for w in ws):
            labels.add('list-leaf')
    for i, d in enumerate(docs):
        for p, n in tdoc.walk(d):
            if n.get('prio') is not None and n['t'] == 'map':
                below = [lp for lp in _writers(d, i)[0] if lp[:len(p)] == p and len(lp) - len(p) >= 2]
                if below:
                    nontrivial = True
                    labels.add('container-tag>=2-above-leaf')
                if not p:
                    labels.add('root-tag')
    for p, ws in cont_writers.items():
        cur = ws[0]
        md = dict(cur[2])
        for w in ws[1:]:
            if w[0] >= cur[0]:
                md = {**md, **w[2]}
                cur = w
            else:
                md = {**w[2], **md}
        exp_md[p] = md

    def assemble():
        root = {}
        for p in cont_writers:
            cur = root
            for k in p:
                cur = cur.setdefault(k, {})
        for p, v in exp_val.items():
            cur = root
            for k in p[:-1]:
                cur = cur.setdefault(k, {})
            cur[p[-1]] = v
        return root
    expected = assemble()

    status, tree = O.try_call(O.build_nodes, texts)
    src = '\nsources:\n' + '\n'.join(texts)
    if status != 'ok':
        raise Violation(f'C03: merge failed with {type(tree).__name__}: {tree}{src}')
    got = O.plain(tree)
    if O.canon_unordered(got) != O.canon_unordered(expected):
        diffs = []
        for p, v in exp_val.items():
            cur = got
            try:
                for k in p:
                    cur = cur[k]
            except (KeyError, IndexError, TypeError):
                cur = '<missing>'
            if O.canon(cur) != O.canon(v):
                diffs.append(f'  at {list(p)}: merged {cur!r}, highest-priority/latest writer wrote {v!r} (writers (prio, stage, value): '
                             f'{[(w[0], w[1], w[2]) for w in leaf_writers[p]]})')
        raise Violation('C03: merged values differ from the per-leaf winner rule\n' + '\n'.join(diffs[:5]) + f'\nmerged: {got!r}\nexpected: {expected!r}{src}')
    # metadata
    for p, md in exp_md.items():
        node = tree.ayns.get_node(list(p)) if p else tree
        have = dict(node.ayns.metadata)
        if have != md:
            raise Violation(f'C03: metadata at {list(p)} is {have!r}, expected {md!r} (union of all writers, winner\'s value on common keys){src}')
    status, cfg = O.try_call(O.build_config, texts)
    if status != 'ok' or O.canon_unordered(O.to_builtin(cfg)) != O.canon_unordered(expected):
        raise Violation(f'C03: evaluated config {cfg!r} differs from merged tree {expected!r}{src}')
    return Outcome(nontrivial=nontrivial, labels=sorted(labels))


def sample_repr(case):
    return [tdoc.render(d) for d in case['docs']]
