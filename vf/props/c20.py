"""C20 - concurrent builds in different threads do not influence each other.

Metamorphic over schedules: each thread's observation under a generated, exactly replayable interleaving
(vf/sched.py) must equal the observation of the same body run alone.
"""
import os
import shutil
import tempfile

from hypothesis import strategies as st

from .. import tdoc, observe as O
from ..core import Violation, Outcome, HarnessError
from ..sched import run_threads

ID = 'C20'
TITLE = 'concurrent builds do not influence each other'
RULE = ('2-3 threads, each Builder() + add_source(own file, safe=own flag) + build() (+ Config(...)), over generated files with an include, '
        '!unsafe markers, nested includes with !path, a second source with the opposite safe flag, a raw string source with a filename, !eval / !xref '
        'nodes, a lazily included file, and failing inputs (parse error, missing include, merge error, failing !eval, unfilled !required), run under a generated schedule of <=200 '
        '(thread, quantum) pairs with quanta biased to 1-20 line events inside the awesomeyaml package; half of the cases start from an empty registry of scalar classes (as a fresh process would); half of the cases use twin bodies (same work, alternating safe flags), half of those a strict small-quantum round-robin from the first line on; non-trivial = >=3 context switches '
        'and threads differing in file and safe flag, or one thread failing; distinct = hash of the case')
BUDGET = {'quick': (4, 60), 'thorough': (16, 1500)}
SHRINK_CAP = {'quick': 60, 'thorough': 400}
ASSUMPTIONS = ['context switches happen only at python line events inside the awesomeyaml package (not inside PyYAML / C code): the granularity the property states',
               'interleavings are sampled; each sampled interleaving is exact and replayable; nothing is claimed for interpreters without a GIL']

BODY_KINDS = ['plain', 'include', 'include', 'include', 'nested-include', 'unsafe', 'parse-error', 'missing-include', 'merge-error',
              'two-sources', 'nested-include', 'eval', 'eval-error', 'rec', 'required-missing', 'raw-string', 'alias', 'alias-ops', 'alias', 'alias-ops']
EVALUABLE = ('plain', 'include', 'unsafe', 'two-sources', 'nested-include', 'eval', 'eval-error', 'rec', 'required-missing', 'raw-string', 'alias', 'alias-ops')


@st.composite
def _case(draw):
    n = draw(st.sampled_from([2, 2, 3]))
    bodies = []
    for i in range(n):
        bodies.append({'kind': draw(st.sampled_from(BODY_KINDS)), 'safe': draw(st.booleans()), 'evaluate': draw(st.booleans()),
                       'size': draw(st.integers(1, 4))})
    if draw(st.booleans()):
        # twins: the same kind of work in every thread (different files, alternating safe flags), so that under a fine-grained
        # round-robin the threads pass through the same code at the same time
        for i, b in enumerate(bodies[1:], 1):
            b.update(kind=bodies[0]['kind'], size=bodies[0]['size'], evaluate=bodies[0]['evaluate'], safe=(bodies[0]['safe'] if i % 2 == 0 else not bodies[0]['safe']))
    pair = st.tuples(st.integers(0, n - 1), st.one_of(st.integers(1, 20), st.integers(1, 20), st.integers(20, 400)))
    # a random prefix (where in the run the fine-grained part starts), then a short pattern repeated many times so that the
    # switches keep falling inside the add_source / api_entry windows, then round-robin with a drawn quantum
    prefix = draw(st.lists(pair, max_size=6))
    pattern = draw(st.lists(pair, min_size=1, max_size=6))
    reps = draw(st.integers(1, 40))
    sched = (prefix + pattern * reps)[:200]
    tail = draw(st.sampled_from([2, 2, 3, 3, 5, 8, 13, 21, 40, 90, 200]))
    if draw(st.booleans()) and len({b['kind'] for b in bodies}) == 1:
        # lockstep: twins under a strict round-robin with one small quantum from the first line on
        q = draw(st.integers(2, 5))
        sched = [(i, q) for _ in range(60) for i in range(n)][:200]
        tail = q
    return {'bodies': bodies, 'schedule': [list(s) for s in sched], 'tail': tail, 'fresh_types': draw(st.booleans())}


def strategy():
    return _case()


_STATIC = {'snap': None}


def _static_state():
    """Mutable class-level attributes (lists / dicts / sets) of the classes of the package, with a copy of their content."""
    import sys, copy
    out = []
    seen = set()
    for name, mod in list(sys.modules.items()):
        if mod is None or not (name == 'awesomeyaml' or name.startswith('awesomeyaml.')):
            continue
        for cls in list(vars(mod).values()):
            if isinstance(cls, type) and getattr(cls, '__module__', '').startswith('awesomeyaml') and id(cls) not in seen:
                seen.add(id(cls))
                for attr, val in list(vars(cls).items()):
                    if isinstance(val, (list, dict, set)) and not attr.startswith('__') and attr != '_types':
                        out.append((val, copy.copy(val)))
    return out


def _restore_static_state():
    if _STATIC['snap'] is None:
        return
    for live, content in _STATIC['snap']:
        if live != content:
            live.clear()
            (live.extend if isinstance(live, list) else live.update)(content)


def _write_files(root, i, body):
    d = os.path.join(root, f't{i}')
    os.makedirs(os.path.join(d, 'sub'))
    main = os.path.join(d, f'main{i}.yaml')
    items = ''.join(f'k{j}: {{v: {i * 100 + j}, l: [{j}, {j + 1}]}}\n' for j in range(body['size']))
    kind = body['kind']
    if kind == 'plain':
        text = f'---\nwho: {i}\n{items}'
    elif kind == 'include':
        with open(os.path.join(d, 'sub', f'inc{i}.yaml'), 'w') as f:
            f.write(f'---\ninner: {i}\nfrom_inc: [1, 2, {i}]\n')
        text = f'---\nwho: {i}\n{items}nested: !include sub/inc{i}.yaml\n--- !include sub/inc{i}.yaml\n'
    elif kind == 'unsafe':
        text = f'---\nwho: {i}\n{items}marked: !unsafe {{a: {i}, b: [1, 2]}}\n'
    elif kind == 'parse-error':
        text = f'---\nwho: {i}\n{items}bad: [1, 2\nworse: }}\n'
    elif kind == 'missing-include':
        text = f'---\nwho: {i}\n{items}gone: !include sub/not_there{i}.yaml\n'
    elif kind == 'two-sources':
        # a second file with the opposite safe flag, merged over the first by the same builder
        with open(os.path.join(d, f'over{i}.yaml'), 'w') as f:
            f.write(f'---\nwho: {i}\nk0: {{v: {i * 100 + 50}, extra: [{i}]}}\nadded: {i}\n')
        text = f'---\nwho: -1\n{items}'
    elif kind == 'nested-include':
        os.makedirs(os.path.join(d, 'sub', 'deep'))
        with open(os.path.join(d, 'sub', 'deep', f'leaf{i}.yaml'), 'w') as f:
            f.write(f'---\nleaf: {i}\n')
        with open(os.path.join(d, 'sub', f'inc{i}.yaml'), 'w') as f:
            f.write(f'---\ninner: {i}\ndeeper: !include deep/leaf{i}.yaml\nwhere: !path:parent [x{i}]\n')
        text = f'---\nwho: {i}\n{items}nested: !include sub/inc{i}.yaml\n'
    elif kind == 'eval':
        text = f'---\nwho: {i}\n{items}e: !eval "who * 2 + {i}"\nf: !eval |\n  t = [k0.v, {i}]\n  t\ng: !xref k0.l\n'
    elif kind == 'eval-error':
        text = f'---\nwho: {i}\n{items}e: !eval "who + undefined_name_{i}"\n'
    elif kind == 'rec':
        with open(os.path.join(d, 'sub', f'lazy{i}.yaml'), 'w') as f:
            f.write(f'---\nlazy: {i}\nl: [{i}]\n')
        text = f'---\nwho: {i}\n{items}r: !rec\n  - {os.path.join(d, "sub", f"lazy{i}.yaml")}\n'
    elif kind == 'required-missing':
        text = f'---\nwho: {i}\n{items}need{i}: !required\n'
    elif kind == 'raw-string':
        text = f'---\nwho: {i}\n{items}'
    elif kind == 'alias':
        # yaml anchors / aliases: plain data made afresh for every place
        text = f'---\nwho: {i}\n{items}am: &m{i} {{k: {i}, l: [{i}]}}\nbm: *m{i}\nal: [*m{i}, {i}]\n'
    elif kind == 'alias-ops':
        # ... and a node that acts where it stands, repeated through an alias: it acts at each place on what is there
        text = f'---\nwho: {i}\n{items}first: [1]\nsecond: [2]\n---\nfirst: &more{i} !append [9{i}]\nsecond: *more{i}\n'
    else:
        text = f'---\nwho: {i}\nl: [1, 2]\n{items}---\nl: {{7: x}}\n'
    with open(main, 'w') as f:
        f.write(text)
    return main, text


def _body(path, safe, evaluate, kind='plain', text=None):
    def run():
        from awesomeyaml import Builder, Config
        b = Builder()
        if kind == 'raw-string':
            b.add_source(text, raw_yaml=True, filename=path + '.virtual', safe=safe)
        else:
            b.add_source(path, safe=safe)
        if kind == 'two-sources':
            b.add_source(os.path.join(os.path.dirname(path), 'over' + os.path.basename(path)[4:]), safe=not safe)
        tree = b.build()
        obs = []
        from awesomeyaml.nodes.scalar import ConfigScalar
        for p, n in tree.ayns.nodes_with_paths(include_self=True):
            plain = type(n).__name__.startswith('ConfigScalar(')
            val = n.ayns.native_value if plain else type(n).__name__
            # (a plain scalar is an instance of *the* class registered for its type - copying and pickling rely on it)
            obs.append((str(p), n.ayns.source_file, n.ayns.safe, repr(val), (type(n) is ConfigScalar(type(n)._dyn_base)) if plain else None))
        if evaluate:
            obs.append(('<evaluated>', repr(O.to_builtin(Config(tree)))))
        return obs
    return run


def _shape(res):
    kind, v = res
    if kind == 'ok':
        return ('ok', v)
    chain = O.exc_chain(v)
    return ('err', type(v).__name__, str(v), [type(x).__name__ for x in chain])


def run_case(case):
    root = tempfile.mkdtemp(prefix='vf-c20-')
    try:
        bodies = []
        texts = []
        for i, b in enumerate(case['bodies']):
            path, text = _write_files(root, i, b)
            bodies.append(_body(path, b['safe'], b['evaluate'] and b['kind'] in EVALUABLE, b['kind'], text))
            texts.append(f'[thread {i}: {os.path.relpath(path, root)} safe={b["safe"]} kind={b["kind"]}]')
        if _STATIC['snap'] is None:
            import awesomeyaml     # noqa
            _STATIC['snap'] = _static_state()       # (before this process has built anything)
        # sequential reference
        ref = []
        for fn in bodies:
            try:
                ref.append(_shape(('ok', fn())))
            except Exception as e:      # noqa
                ref.append(_shape(('err', e)))
        if case.get('fresh_types'):
            # as in a process that has not built a config yet: the classes for plain scalars are made on first use - and whatever else
            # the classes of the package keep at class level (registries, caches filled on first use) is as it was after import
            try:
                from awesomeyaml.nodes.scalar import ConfigScalarMeta
                ConfigScalarMeta._types.clear()
                _restore_static_state()
            except Exception:       # noqa
                pass
        try:
            results, sched = run_threads(bodies, [tuple(s) for s in case['schedule']], tail_quantum=case.get('tail', 40))
        except RuntimeError as e:
            raise HarnessError(str(e))
        labels = {'threads=%d' % len(bodies), 'switches=%s' % ('0-2' if sched.switches < 3 else '3-20' if sched.switches <= 20 else '21-100' if sched.switches <= 100 else '>100')}
        for b in case['bodies']:
            labels.add('body=' + b['kind'])
        for i, (r, want) in enumerate(zip(results, ref)):
            got = _shape(r)
            if got != want:
                def brief(s):
                    if s[0] == 'ok':
                        return s
                    return s[:2] + (s[2][:300],) + s[3:]
                diff = ''
                if got[0] == 'ok' and want[0] == 'ok':
                    d = [(a, b) for a, b in zip(want[1], got[1]) if a != b][:4]
                    diff = f'\nfirst differing nodes (sequential, concurrent): {d}'
                raise Violation(f'C20: thread {i} observed something different under the schedule than when run alone{diff}\n'
                                f'sequential: {str(brief(want))[:600]}\nconcurrent: {str(brief(got))[:600]}\nthreads: {texts}\n'
                                f'schedule (thread, quantum): {case["schedule"][:60]}... switches={sched.switches}')
        failing = any(r[0] == 'err' for r in ref)
        differ = len({(b['safe'], b['kind']) for b in case['bodies']}) > 1
        nontrivial = (sched.switches >= 3 and differ) or (failing and sched.switches >= 1)
        if failing:
            labels.add('failing-thread')
        return Outcome(nontrivial=nontrivial, labels=sorted(labels))
    finally:
        shutil.rmtree(root, ignore_errors=True)


def sample_repr(case):
    return {'bodies': case['bodies'], 'schedule_head': case['schedule'][:20], 'schedule_len': len(case['schedule'])}
