"""C01 - tags are transparent: one source evaluates to its plain-YAML content.

Oracle: PyYAML SafeLoader on the tag-erased twin text (differential), two independent tag placements on the same
skeleton, and the generator's own plain value as a third witness guarding the renderer.
"""
import yaml
from hypothesis import strategies as st

from .. import tdoc, strategies as S, observe as O
from ..core import Violation, Outcome, HarnessError

ID = 'C01'
TITLE = 'merge-control tags never change the evaluated content of a single document'
RULE = ('one mapping document (depth <=5, keys int/float/str incl. underscore, all five scalar types incl. awkward strings, yaml timestamps, block/flow, '
        'quoting styles incl. literal blocks, yaml anchors/aliases) with two independent random placements of !force/!weak/!del/!merge/!new/!unsafe/!metadata ({{..}} and :hex forms) '
        'on any node incl. the root and value-less nodes; non-trivial = a tag on a container that has a container grandchild, or an '
        'underscore key, or a value-less tagged node, or an alias, or a final block scalar ending with line breaks; distinct = hash of the case')
BUDGET = {'quick': (4, 500), 'thorough': (16, 10000)}
ASSUMPTIONS = ['PyYAML SafeLoader on the tag-erased text defines the plain content',
               'strings containing "{{" and unquoted f-string look-alikes are not generated (documented text-level syntax)',
               'key names that are attributes of the node classes are not generated (rejected by design)']

_str_ok = lambda s: '{{' not in s
@st.composite
def _leaf(draw):
    if draw(st.integers(0, 39)) == 0:
        return tdoc.ts(draw(st.sampled_from(tdoc.TIMESTAMPS)))      # yaml timestamps: PyYAML resolves them to date / datetime
    return draw(S.scalar_node(S.SCALARS.filter(lambda v: not isinstance(v, str) or _str_ok(v))))


LEAVES = _leaf()


@st.composite
def _case(draw):
    keys = S.any_keys().filter(lambda k: not isinstance(k, str) or _str_ok(k))
    skel = draw(S.mapping_doc(LEAVES, keys, max_leaves=14, max_children=4))
    # yaml anchors / aliases: some node of the document is used again further down (PyYAML loads the same content there)
    if draw(st.integers(0, 3)) == 0:
        cands = [n for p, n in tdoc.walk(skel) if p and not (n['t'] == 'sc' and n['v'] is None)]
        if cands:
            for i in range(draw(st.integers(1, 2))):
                tgt = cands[draw(st.integers(0, len(cands) - 1))]
                tgt.setdefault('anchor', f'n{i}')
                al = {'t': 'alias', 'name': tgt['anchor']}
                shape = draw(st.integers(0, 2))
                val = al if shape == 0 else tdoc.sq([al, dict(al)], flow=draw(st.booleans())) if shape == 1 else tdoc.mp([('k', al)], flow=draw(st.booleans()))
                skel['items'].append([f'zal{i}', val])
    if draw(st.integers(0, 5)) == 0:
        # the very last node of the source is a literal block scalar whose value ends with line breaks (clip / keep chomping)
        skel['flow'] = False
        skel['items'].append(['zblk', tdoc.sc(draw(st.sampled_from(['last line\n', 'a\nb\n', 'keeps\n\n\n', 'strip'])), q='block')])
    flags = S.flag_set()
    a = draw(S.decorate(skel, flags))
    b = draw(S.decorate(skel, flags))
    return {'a': a, 'b': b}


def strategy():
    return _case()


def _has_container_grandchild(n):
    kids = [v for _, v in n['items']] if n['t'] == 'map' else n['items'] if n['t'] == 'seq' else []
    for k in kids:
        kk = [v for _, v in k['items']] if k['t'] == 'map' else k['items'] if k['t'] == 'seq' else []
        if any(g['t'] in ('map', 'seq') for g in kk):
            return True
    return False


def classify(doc):
    labels = set()
    nontrivial = False
    for path, n in tdoc.walk(doc):
        tagged = bool(tdoc.node_flags(n))
        if tagged:
            labels.add('tag-depth=%d' % min(len(path), 4))
            labels.add('style=' + n.get('mdstyle', 'short'))
            if not path:
                labels.add('root-tagged')
            if n['t'] in ('map', 'seq') and _has_container_grandchild(n):
                nontrivial = True
                labels.add('tag-above-container-grandchild')
            if n['t'] == 'empty':
                nontrivial = True
                labels.add('valueless-tagged')
        if path and isinstance(path[-1], str) and path[-1].startswith('_'):
            nontrivial = True
            labels.add('underscore-key')
        if path and isinstance(path[-1], float):
            labels.add('float-key')
        if n['t'] in ('map', 'seq') and n.get('flow'):
            labels.add('flow')
        if n['t'] == 'alias':
            labels.add('alias')
            nontrivial = True
        if n['t'] == 'raw' and n.get('res'):
            labels.add('timestamp-scalar')
        if n['t'] == 'sc' and n.get('q') == 'block' and isinstance(n['v'], str) and n['v'].endswith('\n'):
            labels.add('block-scalar-ending-with-line-breaks')
            nontrivial = True
    return nontrivial, labels


def run_case(case):
    skeleton_plain = tdoc.plain_resolved(case['a'])
    erased = tdoc.render(case['a'], erase=True)
    try:
        ref = yaml.load(erased, Loader=yaml.SafeLoader)
    except yaml.YAMLError as e:
        raise HarnessError(f'erased text does not load: {e}\n{erased}')
    if O.canon(ref) != O.canon(skeleton_plain):
        raise HarnessError(f'renderer: intended {skeleton_plain!r} but PyYAML loads {ref!r}\n{erased}')
    nontrivial, labels = False, set()
    for which in ('a', 'b'):
        doc = case[which]
        text = tdoc.render(doc)
        if which == 'b':
            er_b = tdoc.render(doc, erase=True)
            if O.canon(yaml.load(er_b, Loader=yaml.SafeLoader)) != O.canon(ref):
                raise HarnessError('placements differ in content')
        status, got = O.try_call(O.build_config, [text])
        if status != 'ok':
            raise Violation(f'C01: building a single tagged document failed with {type(got).__name__}: {got}\n'
                            f'tagged source:\n{text}\nplain-YAML content: {ref!r}')
        gotb = O.to_builtin(got)
        if O.canon(gotb) != O.canon(ref):
            raise Violation(f'C01: evaluated config {gotb!r} != PyYAML content of the tag-erased document {ref!r}\ntagged source:\n{text}')
        nt, lb = classify(doc)
        nontrivial |= nt
        labels |= lb
    return Outcome(nontrivial=nontrivial, labels=sorted(labels))


def sample_repr(case):
    return {'tagged_a': tdoc.render(case['a']), 'tagged_b': tdoc.render(case['b']), 'erased': tdoc.render(case['a'], erase=True)}
