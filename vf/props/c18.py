"""C18 - dump then parse gives a tree that merges and evaluates the same.

Round trip (text fixpoint, user metadata node by node) + substitution in generated merge contexts + evaluation.
"""
from hypothesis import strategies as st

import vfrec
from .. import tdoc, strategies as S, observe as O
from ..core import Violation, Outcome
from .c11 import cmp_repr

ID = 'C18'
TITLE = 'dump -> parse is interchangeable'
RULE = ('one document over the full tag vocabulary (merge-control tags and metadata on every node kind incl. null, all dynamic / structural '
        'kinds, multi-line !eval, !path reference points) parsed through a Builder with a file name, dumped and re-parsed; a merge context '
        'of 0-2 random tagged stages before and after; non-trivial = a flag equal to its type default or implied by the parent, or a tagged '
        'scalar that needs quoting, or a dynamic node with metadata; distinct = hash of the case')
BUDGET = {'quick': (4, 300), 'thorough': (16, 5000)}
SHRINK_CAP = {'quick': 300, 'thorough': 3000}
ASSUMPTIONS = ['besides random stages, one older stage is derived from the document itself (an extra entry in every container), so that the delete flag of every container shows',
               'the document is dumped as parsed (before preprocessing), re-parsed under the same file name',
               'evaluation is compared for documents without structural nodes (includes / !prev / !append need files or older stages)']


@st.composite
def _case(draw):
    structural = draw(st.integers(0, 3)) == 0
    strs = st.one_of(S.SIMPLE_SCALARS, st.sampled_from([1e22, float('inf'), float('-inf'), 1e-07, 2.5e-10]), st.sampled_from(['multi\nline', "it's", 'say "x"', 'both \' and "', ' lead', 'trail ', '1', 'true', '~', 'a: b', '#c', '', 'é中', "f'{1+1}'", 'f"x"', '0x1F', '1_000']))
    doc = draw(S.full_doc(allow_structural=structural, scalars=strs, aliases=draw(st.sampled_from([False, True, 'all']))))
    if not structural and draw(st.integers(0, 3)) == 0:
        # a plain value marked unsafe (tag or metadata) that a call depends on: the mark is what makes the call refuse to run
        val = tdoc.sc(draw(st.sampled_from([7, 'txt', 2.5, True, None])), unsafe=True, mdstyle=draw(st.sampled_from(['short', 'braces', 'hex'])))
        doc['items'] = [kv for kv in doc['items'] if kv[0] not in ('ua', 'uc')] + [['ua', val], ['uc', tdoc.mp([('v', tdoc.raw('ua', '!xref'))], flow=True, tag='!call:vfrec.call_90')]]
    if not structural and draw(st.integers(0, 4)) == 0:
        # data written below an !unsafe mapping and repeated, through a yaml alias or a merge key, at a place that is safe: the copy stays
        # unsafe (which is what makes the call that depends on it refuse to run) - the dumped text has to say so
        data = draw(st.sampled_from([tdoc.sc(5), tdoc.mp([('k', tdoc.sc(1))], flow=True), tdoc.sq([tdoc.sc(2)], flow=True)]))
        data = dict(data, anchor='un')
        al = {'t': 'alias', 'name': 'un'}
        copy_place = tdoc.mp([('<<', al), ('j', tdoc.sc(2))]) if data['t'] == 'map' and draw(st.booleans()) else tdoc.mp([('y', al)])
        doc['items'] = [kv for kv in doc['items'] if kv[0] not in ('ub', 'uy', 'uz')] + [
            ['ub', tdoc.mp([('x', data)], unsafe=True, mdstyle='short')], ['uy', copy_place],
            ['uz', tdoc.mp([('v', tdoc.raw('uy', '!xref'))], flow=True, tag='!call:vfrec.call_91')]]
    if structural and draw(st.integers(0, 2)) == 0:
        # the same with a structural node (an include / !prev / !append / !extend / !clear acts where it stands, so every copy of it
        # carries its own flags): the copy below the safe mapping is written with a metadata suffix, which the loader has to read back
        data = draw(st.sampled_from([tdoc.raw('inc_a.yaml', '!include'), tdoc.raw('a', '!prev'), tdoc.sq([tdoc.sc(3)], flow=True, tag='!append'),
                                     tdoc.sq([tdoc.sc(4)], flow=True, tag='!extend'), {'t': 'empty', 'tag': '!clear'},
                                     tdoc.sq([tdoc.sc('inc_a.yaml'), tdoc.sc('inc_b.yaml')], flow=True, tag='!include')]))
        data = dict(data, anchor='us')
        al = {'t': 'alias', 'name': 'us'}
        places = [['uq', tdoc.mp([('x', data)], unsafe=True, mdstyle='short')], ['ur', tdoc.mp([('y', al)])]]
        if draw(st.booleans()):
            places = [['ur', tdoc.mp([('y', data)])], ['uq', tdoc.mp([('x', al)], unsafe=True, mdstyle='short')]]
        doc['items'] = [kv for kv in doc['items'] if kv[0] not in ('uq', 'ur')] + places
    pre = draw(st.lists(S.tagged_stages(min_stages=1, max_stages=1, keys=S.MERGE_KEYS_NONEG, neg=False, density=3).map(lambda l: l[0]), max_size=2))
    post = draw(st.lists(S.tagged_stages(min_stages=1, max_stages=1, keys=S.MERGE_KEYS_NONEG, neg=False, density=3, notnew=True).map(lambda l: l[0]), max_size=2))
    return {'doc': doc, 'pre': pre, 'post': post, 'structural': structural}


def strategy():
    return _case()


def parse_one(text, fname='doc.yaml'):
    from awesomeyaml.builder import Builder
    b = Builder()
    b.add_source(text, raw_yaml=True, filename=fname)
    if len(b.stages) != 1:
        raise ValueError(f'{len(b.stages)} documents')
    return b.stages[0]


def user_md(tree):
    out = []
    for p, n in tree.ayns.nodes_with_paths(include_self=True):
        out.append((str(p), repr(sorted(n.ayns.metadata.items(), key=str))))
    return out


def build_with(texts_pre, tree, texts_post):
    from awesomeyaml.builder import Builder
    b = Builder()
    for i, t in enumerate(texts_pre):
        b.add_source(t, raw_yaml=True, filename=f'pre{i}.yaml')
    b.stages.append(tree)
    for i, t in enumerate(texts_post):
        b.add_source(t, raw_yaml=True, filename=f'post{i}.yaml')
    return b.build()


def _merge_outcome(pre, tree, post):
    st_, res = O.try_call(build_with, pre, tree, post)
    if st_ == 'ok':
        return ['ok', O.canon(O.plain(res)) if res is not None else None]
    return ['err', type(res).__name__]


def _eval_outcome(tree):
    from awesomeyaml import Config
    vfrec.reset()
    st_, res = O.try_call(lambda: Config(tree))
    if st_ == 'ok':
        return ['ok', cmp_repr(res)]
    return ['err', type(res).__name__]


def shadow(doc):
    """An older stage shaped after the document: the same container paths, every mapping (also the arguments of function nodes) with one
    extra key and every list with one extra element - merged below the document it shows, at every container, whether that container
    replaces or combines (its delete flag), which the values of the document alone do not."""
    anchors = {n['anchor']: n for _, n in tdoc.walk(doc) if n.get('anchor')}

    def rec(n, depth=0):
        if n['t'] == 'alias':
            return rec(anchors[n['name']], depth + 1) if n['name'] in anchors and depth < 8 else tdoc.sc(0)
        if n['t'] == 'map':
            return tdoc.mp([(k, rec(v, depth + 1)) for k, v in n['items']] + [('zq', tdoc.sc(1))], flow=False)
        if n['t'] == 'seq' and not str(n.get('tag', '')).startswith('!path'):
            return tdoc.sq([rec(v, depth + 1) for v in n['items']] + [tdoc.sc(9)], flow=False)
        return tdoc.sc(0)
    return rec(doc)


def classify(doc):
    labels = set()
    nt = False
    for p, n in tdoc.walk(doc):
        fl = tdoc.node_flags(n)
        tag = str(n.get('tag', ''))
        if tag:
            labels.add('kind=' + tag.split(':')[0])
        if fl and tag:
            nt = True
            labels.add('dynamic-with-metadata')
        if n.get('del') is not None and (n['t'] in ('map', 'seq')) and n['del'] == (n['t'] == 'seq'):
            nt = True
            labels.add('flag-equals-type-default')
        if n['t'] == 'sc' and isinstance(n['v'], str) and fl and (not n['v'].isalnum()):
            nt = True
            labels.add('tagged-scalar-needs-quoting')
        if n['t'] == 'alias':
            labels.add('alias')
        if n['t'] in ('empty',) and fl:
            labels.add('flag-on-null')
            nt = True
    return nt, labels


def run_case(case):
    import awesomeyaml.yaml as ayyaml
    text = tdoc.render(case['doc'])
    src = f'\noriginal document:\n{text}'
    conflict = tdoc.alias_context_conflict(case['doc'])
    try:
        D = parse_one(text)
    except Exception as e:      # noqa
        raise Violation(f'C18: generated document does not parse: {type(e).__name__}: {e}{src}')
    st_, dumped = O.try_call(ayyaml.dump, D)
    if st_ != 'ok':
        raise Violation(f'C18: dump() of a parsed document raised {type(dumped).__name__}: {dumped}{src}')
    src += f'\ndumped:\n{dumped}'
    try:
        D2 = parse_one(dumped)
    except Exception as e:      # noqa
        raise Violation(f'C18: the dumped text does not parse back: {type(e).__name__}: {str(e)[:400]}{src}')
    st_, dumped2 = O.try_call(ayyaml.dump, D2)
    if st_ != 'ok' or dumped2 != dumped:
        raise Violation(f'C18: dumping the re-parsed document does not give the same text again:\n{dumped2}{src}')
    # a dynamic node that an alias places at several paths is one node (evaluated once, merged as one): the text must say so again
    from .c19 import sharing
    s1, s2 = sharing(parse_one(text)), sharing(D2)
    if s1 != s2:
        raise Violation(f'C18: in the original these groups of paths hold one node each: {s1}; after dump -> parse: {s2}{src}')
    m1, m2 = user_md(parse_one(text)), user_md(D2)
    if m1 != m2:
        diff = [(a, b) for a, b in zip(m1, m2) if a != b][:3] or [('length', len(m1), len(m2))]
        raise Violation(f'C18: user metadata differs after dump -> parse, first differences (original, re-parsed): {diff}{src}')
    nt, labels = classify(case['doc'])
    pre = [tdoc.render(d) for d in case['pre']]
    post = [tdoc.render(d) for d in case['post']]
    labels.add('context=%d+%d' % (len(pre), len(post)))
    if conflict:
        labels.add('aliased-node-under-differently-flagged-parents')
    a = _merge_outcome(pre, parse_one(text), post)
    b = _merge_outcome(pre, parse_one(dumped), post)
    if a != b:
        ctx = '\nstages before:\n' + '\n'.join(pre) + '\nstages after:\n' + '\n'.join(post)
        raise Violation(f'C18: substituted in a merge sequence the re-parsed document gives {b}, the original {a}{src}{ctx}')
    if not case['structural']:
        sh = [tdoc.render(shadow(case['doc']))]
        a = _merge_outcome(sh, parse_one(text), [])
        b = _merge_outcome(sh, parse_one(dumped), [])
        if a != b:
            raise Violation(f'C18: merged over an older stage that has an extra entry in every container, the re-parsed document gives {b}, '
                            f'the original {a}{src}\nolder stage:\n{sh[0]}')
        labels.add('shadow-' + a[0])
        e1, e2 = _eval_outcome(parse_one(text)), _eval_outcome(parse_one(dumped))
        if e1 != e2:
            raise Violation(f'C18: the re-parsed document evaluates to {e2}, the original to {e1}{src}')
        labels.add('eval-' + e1[0])
    return Outcome(nontrivial=nt, labels=sorted(labels))


def sample_repr(case):
    return {'doc': tdoc.render(case['doc']), 'pre': len(case['pre']), 'post': len(case['post'])}
