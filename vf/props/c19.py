"""C19 - deepcopy and pickle reproduce any node tree, independent of the original.

Round trip (node-by-node public snapshot), substitution in merge sequences and evaluation (behavioural equality),
and mutation independence.
"""
import copy
import pickle

from hypothesis import strategies as st

import vfrec
from .. import tdoc, strategies as S, observe as O
from ..core import Violation, Outcome
from .c11 import cmp_repr

ID = 'C19'
TITLE = 'deepcopy / pickle reproduce any tree'
RULE = ('(A) one parsed document over the full tag vocabulary (all node kinds incl. structural ones, flags and metadata on every kind, yaml '
        'aliases of nodes of every kind) and '
        '(B) trees merged from 1-3 such documents without structural kinds, substituted as older and as newer stage against random tagged '
        'stages X, Y and evaluated, (C) a file including a 2-3 document file, preprocessed but not flattened (stream nodes), flattened after copying / editing; copies by copy.deepcopy and by a pickle round trip; then a mutation of copy or original; '
        'non-trivial = depth >=2 with >=1 explicit and >=1 inherited flag, or a function/path node with children; distinct = hash of the case')
BUDGET = {'quick': (4, 250), 'thorough': (16, 4000)}
SHRINK_CAP = {'quick': 300, 'thorough': 3000}
ASSUMPTIONS = ['the copy must have the same sharing pattern as the original (paths holding one node object), ' 
               'node-by-node equality covers kinds, content, priority, safety, targets / reference points / file names, metadata and the public '
               'delete / explicit_delete / allow_new flags (any difference there is observable by some later merge); behaviour is compared as well']


@st.composite
def _case(draw):
    fam = draw(st.sampled_from(['A', 'B', 'B', 'A', 'B', 'B', 'C']))
    case = {'fam': fam, 'mut': [draw(st.integers(0, 20)), draw(st.sampled_from(['set', 'del', 'md', 'append'])), draw(st.booleans())]}
    if fam == 'A':
        case['docs'] = [draw(S.full_doc(allow_structural=True, aliases='all'))]
    elif fam == 'C':
        # a file that includes a multi-document file, preprocessed but not flattened yet: the include is a stream node holding the documents
        main = draw(S.tagged_stages(min_stages=1, max_stages=1, keys=S.MERGE_KEYS_NONEG, neg=False, density=4))[0]
        main['items'] = [kv for kv in main['items'] if kv[0] not in ('inc', 'grp')]
        main['flow'] = False
        main['items'].insert(draw(st.integers(0, len(main['items']))), ['inc', tdoc.raw('inc_a.yaml', '!include')])
        if draw(st.booleans()):
            main['items'].append(['grp', tdoc.mp([('sub', tdoc.raw('inc_a.yaml', '!include'))], **({'prio': -1} if draw(st.booleans()) else {}))])
        case['docs'] = [main]
        case['inc'] = draw(S.tagged_stages(min_stages=2, max_stages=3, keys=S.MERGE_KEYS_NONEG, neg=False, density=4))
    else:
        n = draw(st.sampled_from([1, 2, 2, 3]))
        case['docs'] = [draw(S.full_doc(allow_structural=False, aliases='all')) for _ in range(n)]
        case['X'] = draw(S.tagged_stages(min_stages=1, max_stages=1, keys=S.MERGE_KEYS_NONEG, neg=False, density=3))[0]
        case['Y'] = draw(S.tagged_stages(min_stages=1, max_stages=1, keys=S.MERGE_KEYS_NONEG, neg=False, density=3))[0]
    return case


def strategy():
    return _case()


def parse_one(text, fname='t.yaml'):
    from awesomeyaml.builder import Builder
    b = Builder()
    b.add_source(text, raw_yaml=True, filename=fname)
    return b.stages[0]


def merged(texts):
    from awesomeyaml.builder import Builder
    b = Builder()
    for i, t in enumerate(texts):
        b.add_source(t, raw_yaml=True, filename=f't{i}.yaml')
    return b.build()


def merge_trees(trees):
    from awesomeyaml.builder import Builder
    b = Builder()
    b.stages = list(trees)
    return b.build()


def node_snap(n):
    a = n.ayns
    tn = type(n).__name__
    d = {'kind': tn, 'priority': a.priority, 'safe': a.safe, 'metadata': repr(sorted(a.metadata.items(), key=str)), 'source_file': a.source_file,
         'delete': a.delete, 'explicit_delete': a.explicit_delete, 'allow_new': a.allow_new}
    if hasattr(n, '_func'):
        f = a.func
        d['func'] = (type(f).__name__, str(f)) if isinstance(f, str) else getattr(f, '__qualname__', type(f).__name__)
    if hasattr(n, 'ref_point'):
        d['ref_point'] = n.ref_point
    if hasattr(n, 'filenames'):
        d['filenames'] = list(n.filenames)
    if tn.startswith('ConfigScalar(') or tn in ('EvalNode', 'FStrNode', 'XRefNode', 'ImportNode', 'PrevNode'):
        try:
            d['value'] = repr(a.native_value)
        except Exception:
            d['value'] = str(n)
    return d


def snapshot(tree):
    out = []
    for p, n in tree.ayns.nodes_with_paths(include_self=True):
        out.append((str(p), node_snap(n)))
    return out


def well_formed(tree):
    for n in tree.ayns.nodes(include_self=True):
        if hasattr(n, '_children'):
            names = [k for k, _ in n.ayns.named_children()]
            kids = [v for _, v in n.ayns.named_children()]
            if isinstance(n, list):
                if names != list(range(len(names))) or len(kids) != list.__len__(n) or any(a is not b for a, b in zip(kids, list.__iter__(n))):
                    return False
            elif isinstance(n, dict):
                if len(kids) != dict.__len__(n) or any(a is not b for a, b in zip(kids, dict.values(n))):
                    return False
    return True


alias_context_conflict = tdoc.alias_context_conflict


def sharing(tree):
    """Which paths hold one and the same node object: set of groups (>= 2 paths) - yaml aliases and merges create such trees."""
    groups = {}
    for p, n in tree.ayns.nodes_with_paths(include_self=True, allow_duplicates=True):
        groups.setdefault(id(n), []).append(str(p))
    return sorted(sorted(g) for g in groups.values() if len(g) >= 2)


def all_ids(tree):
    return {id(n) for n in tree.ayns.nodes(include_self=True, allow_duplicates=True)}


def _outcome(fn):
    st_, res = O.try_call(fn)
    if st_ == 'ok':
        return ['ok', O.canon(O.plain(res)) if res is not None else None]
    return ['err', type(res).__name__]


def _eval_outcome(tree):
    from awesomeyaml import Config
    vfrec.reset()
    st_, res = O.try_call(lambda: Config(tree))
    if st_ == 'ok':
        return ['ok', cmp_repr(res)]
    return ['err', type(res).__name__]


COPIERS = {'deepcopy': copy.deepcopy, 'pickle': lambda t: pickle.loads(pickle.dumps(t))}


def preprocessed(folder):
    """main.yaml of the folder parsed and preprocessed (includes read), not flattened: its !include nodes are streams of documents"""
    import os
    from awesomeyaml.builder import Builder
    b = Builder()
    b.add_source(os.path.join(folder, 'main.yaml'))
    b.preprocess()
    return b.stages[0]


def finish(tree):
    """what Builder.build() goes on to do with a preprocessed tree: flatten (the streams merge their documents)"""
    from awesomeyaml.builder import Builder
    b = Builder()
    b.stages = [tree]
    b.flatten()
    return b.stages[0]


def streams(tree):
    return [n for n in tree.ayns.nodes(include_self=True) if type(n).__name__ == 'StreamNode']


def run_case(case):
    if case['fam'] != 'C':
        return _run_case(case, None)
    import tempfile, os
    with tempfile.TemporaryDirectory(prefix='vf-c19-') as folder:
        with open(os.path.join(folder, 'main.yaml'), 'w', encoding='utf-8') as f:
            f.write(tdoc.render(case['docs'][0]))
        with open(os.path.join(folder, 'inc_a.yaml'), 'w', encoding='utf-8') as f:
            f.write(tdoc.render_stream(case['inc']))
        return _run_case(case, folder)


def _run_case(case, folder):
    texts = [tdoc.render(d) for d in case['docs']]
    src = '\nsources:\n' + '\n'.join(texts)
    if folder:
        src += '\nincluded file inc_a.yaml:\n' + tdoc.render_stream(case['inc'])
    fam = case['fam']
    labels = {'fam=' + fam, 'stages=%d' % len(texts)}

    if any(alias_context_conflict(d, shared_only=True) for d in case['docs']):
        labels.add('aliased-node-under-differently-flagged-parents')

    def make():
        if fam == 'C':
            return preprocessed(folder)
        return parse_one(texts[0]) if fam == 'A' else merged(texts)
    try:
        t0 = make()
    except Exception as e:      # noqa
        if fam == 'B':
            return Outcome(labels=['skip-merge-fails'])
        raise Violation(f'C19: cannot parse the generated document: {type(e).__name__}: {e}{src}')
    if not well_formed(t0):
        # a container whose built-in storage and child map disagree (it used to happen when a list / path node was promoted over a
        # mapping that kept protected entries, R35): no copy can be "equal" to that, and evaluation follows one view, merging the other
        raise Violation(f'C19: the merged tree is not a well-formed tree to begin with: the built-in storage and the child map of a container disagree{src}')
    snap0 = snapshot(t0)
    explicit = any(tdoc.has_flags(n) for d in case['docs'] for p, n in tdoc.walk(d) if p)
    deep = max(tdoc.depth(d) for d in case['docs']) >= 2
    fnode = any(str(n.get('tag', '')).startswith(('!call:', '!bind:', '!path')) and n.get('items') for d in case['docs'] for _, n in tdoc.walk(d))
    nontrivial = (deep and explicit) or fnode
    for name, cp in COPIERS.items():
        t = make()
        try:
            c = cp(t)
        except Exception as e:      # noqa
            raise Violation(f'C19: {name} of the tree failed: {type(e).__name__}: {e}{src}')
        sc = snapshot(c)
        if sc != snap0:
            diff = [(a, b) for a, b in zip(snap0, sc) if a != b][:3] or [('length', len(snap0), len(sc))]
            raise Violation(f'C19: {name} copy differs from the original, first differences (original, copy): {diff}{src}')
        if snapshot(t) != snap0:
            raise Violation(f'C19: {name} modified the original tree{src}')
        sh_o, sh_c = sharing(t), sharing(c)
        if sh_o != sh_c:
            raise Violation(f'C19: in the original these groups of paths hold one node object each: {sh_o}; in the {name} copy: {sh_c} '
                            f'(a shared node merges and evaluates as one node){src}')
        if sh_o:
            labels.add('shared-nodes')
            nontrivial = True
        shared = all_ids(t) & all_ids(c)
        if shared:
            raise Violation(f'C19: {name} copy shares {len(shared)} node objects with the original{src}')
        # mutation independence
        idx, how, on_copy = case['mut']
        victim, other = (c, t) if on_copy else (t, c)
        conts = [n for n in victim.ayns.nodes(include_self=True) if hasattr(n, '_children')]
        tgt = conts[idx % len(conts)]
        before = snapshot(other)
        try:
            if how == 'md':
                nodes = list(victim.ayns.nodes(include_self=True))
                nodes[idx % len(nodes)].ayns.metadata['mutated'] = [1]
            elif isinstance(tgt, dict):
                if how == 'del' and len(tgt):
                    del tgt[next(iter(tgt.keys()))]
                else:
                    tgt['mutated_key'] = {'x': [1, 2]}
            elif isinstance(tgt, list):
                if how == 'del' and len(tgt):
                    del tgt[0]
                else:
                    tgt.append({'x': 1})
        except (TypeError, ValueError, KeyError, IndexError):
            pass
        if snapshot(other) != before:
            raise Violation(f'C19: mutating the {"copy" if on_copy else "original"} ({how}) changed the {"original" if on_copy else name + " copy"}{src}')
        labels.add('mut=' + how)
        if fam == 'C':
            # the copy of a preprocessed tree goes on like the original: flattened it gives the same tree; a document of a stream edited in the
            # copy shows in what the copy becomes (exactly as the same edit of an original does) and nowhere else
            def edited(tree):
                ss = streams(tree)
                if ss:
                    s_ = ss[idx % len(ss)]
                    if not all(a is b for a, b in zip(s_.ayns.children(), s_.stages)) or len(s_.stages) != s_.ayns.children_count():
                        raise Violation(f'C19: a stream node of the {name} copy does not hold the documents its builder is going to merge{src}')
                    doc = s_[(idx // 3) % len(s_)]
                    if isinstance(doc, dict):
                        doc['mutated_key'] = 777
                return tree
            ref_plain, got_plain = _outcome(lambda: finish(make())), _outcome(lambda: finish(cp(make())))
            if ref_plain != got_plain:
                raise Violation(f'C19: flattening the {name} copy of the preprocessed tree gives {got_plain}, the original {ref_plain}{src}')
            o2 = make()
            c2 = cp(o2)
            got_edit = _outcome(lambda: finish(edited(c2)))
            ref_edit = _outcome(lambda: finish(edited(make())))
            if got_edit != ref_edit:
                raise Violation(f'C19: a document of an included stream edited in the {name} copy: flattened it gives {got_edit}, the same edit of an '
                                f'original gives {ref_edit}{src}')
            after = _outcome(lambda: finish(o2))
            if after != ref_plain:
                raise Violation(f'C19: after the {name} copy was edited and flattened the original flattens to {after} instead of {ref_plain}{src}')
            labels.add('stream-' + ref_plain[0])
            nontrivial = nontrivial or ref_plain[0] == 'ok'
        if fam == 'B':
            xt, yt = tdoc.render(case['X']), tdoc.render(case['Y'])
            ctx = f'{src}\nX:\n{xt}\nY:\n{yt}'
            ref_newer = _outcome(lambda: merge_trees([parse_one(xt, 'x.yaml'), make()]))
            got_newer = _outcome(lambda: merge_trees([parse_one(xt, 'x.yaml'), cp(make())]))
            if ref_newer != got_newer:
                raise Violation(f'C19: build(X, {name} copy) = {got_newer} but build(X, original) = {ref_newer}{ctx}')
            ref_older = _outcome(lambda: merge_trees([make(), parse_one(yt, 'y.yaml')]))
            got_older = _outcome(lambda: merge_trees([cp(make()), parse_one(yt, 'y.yaml')]))
            if ref_older != got_older:
                raise Violation(f'C19: build({name} copy, Y) = {got_older} but build(original, Y) = {ref_older}{ctx}')
            e1, e2 = _eval_outcome(make()), _eval_outcome(cp(make()))
            if e1 != e2:
                raise Violation(f'C19: evaluating the {name} copy gives {e2}, the original {e1}{src}')
            labels.add('eval-' + e1[0])
    return Outcome(nontrivial=nontrivial, labels=sorted(labels))


def sample_repr(case):
    return {'fam': case['fam'], 'docs': [tdoc.render(d) for d in case['docs']]}
