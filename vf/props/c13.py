"""C13 - !call / !bind pass arguments as Python would; function nodes merge by the documented table.

Oracle: the stated binding rule, then CPython itself binds (the target is called natively); a small state machine
over (target, args) for merge histories.
"""
import functools

from hypothesis import strategies as st

import vfrec
from .. import tdoc, observe as O
from ..core import Violation, Outcome

ID = 'C13'
TITLE = 'call/bind argument binding and the function-node merge table'
RULE = ('targets with generated signatures (positional-only, positional-or-keyword, defaults, keyword-only, *args, **kwargs), argument sets '
        'with int keys (contiguous prefix, gaps), string keys, both naming one parameter, list / scalar / value-less forms, dynamic values '
        '(!eval, !xref); merge histories of 0-4 steps onto the node: mapping, list, other target as string, other / same target as function '
        'node with and without {{delete: False}}; non-trivial = a gap bound by name, a *args overflow, or >=2 merge steps; '
        'distinct = hash of the case')
BUDGET = {'quick': (4, 700), 'thorough': (16, 12000)}
ASSUMPTIONS = ['one case in eight also runs two fixed documents: a target name bound to another function between two builds, and builtin targets without an introspectable signature given gap-free positional arguments',
               'a string equal to the current target and call<->bind kind changes are not generated; a dynamic scalar node (!xref, !eval, !import, f-string) merged onto a function node is a value, not a target name (the table speaks of strings)',
               'argument values are scalars (nested argument mappings merge by the ordinary rules)']

VALS = st.one_of(st.integers(0, 9), st.sampled_from(['s', None, True, 2.5]))


@st.composite
def _sig(draw, tag=0):
    po = draw(st.integers(0, 2))
    pk = draw(st.integers(0, 3))
    nd = draw(st.integers(0, po + pk))
    ko = draw(st.integers(0, 2))
    va = draw(st.integers(0, 2)) == 0
    vk = draw(st.integers(0, 2)) == 0
    return f'sig_{po}_{pk}_{nd}_{ko}_{int(va)}_{int(vk)}_{tag}'


def _positional_count(name):
    po, pk, nd, ko, va, vk = vfrec.sig_params(name)
    return po + pk


@st.composite
def _args(draw, signame):
    """-> list of [key, valuespec]; valuespec: ['lit', v] | ['eval', src, v] | ['xref', key]"""
    po, pk, nd, ko, va, vk = vfrec.sig_params(signame)
    npos = po + pk
    names = [f'a{i}' for i in range(po)] + [f'b{i}' for i in range(pk)] + [f'k{i}' for i in range(ko)]
    keys = []
    # int keys: a contiguous prefix and maybe gaps
    complete = draw(st.integers(0, 3)) > 0        # mostly supply every required parameter so that the call succeeds
    required = npos - min(nd, npos)
    prefix = draw(st.integers(required if complete else 0, npos + (2 if va else 0)))
    if complete and required >= 2 and draw(st.integers(0, 2)) == 0:
        prefix = draw(st.integers(0, required - 1))           # ... some of them through a gap index instead
        keys += [i for i in range(prefix + 1, required)]
    keys += list(range(prefix))
    for _ in range(draw(st.integers(0, 2))):
        # (also indices that land on keyword-only / **kwargs parameters, which are not positional parameters: "beyond the signature")
        g = draw(st.integers(prefix + 1, max(prefix + 1, npos + (ko + 2 if draw(st.integers(0, 7)) == 0 else 1))))
        if g not in keys:
            keys.append(g)
    if draw(st.integers(0, 24)) == 0:
        keys.append(draw(st.sampled_from([-1, -1, -2])))        # positions do not count from the end of the signature
    # string keys
    # ('copy', 'values', 'items': parameter names that are also attributes of the mapping class - think numpy.array(..., copy=False))
    pool = names + (['zz', 'extra', 'copy', 'values', 'items'] if vk or draw(st.integers(0, 5)) == 0 else [])
    if pool:
        for nm in draw(st.lists(st.sampled_from(pool), max_size=3, unique=True)):
            keys.append(nm)
    if complete:
        for i in range(0, ko, 2):
            if f'k{i}' not in keys:
                keys.append(f'k{i}')
        if prefix < required and f'a{prefix}' not in keys and f'b{prefix - po}' not in keys:
            nm = names[prefix]
            if prefix >= po:
                keys.append(nm)         # the skipped positional-or-keyword parameter by name
    order = draw(st.permutations(keys)) if len(keys) > 1 else keys
    out = []
    for k in order:
        c = draw(st.integers(0, 5))
        if c == 0:
            a, b = draw(st.integers(0, 9)), draw(st.integers(0, 9))
            out.append([k, ['eval', f'{a} * {b}', a * b]])
        elif c == 1:
            out.append([k, ['xref', draw(st.sampled_from(['other', 'deep.leaf']))]])
        else:
            out.append([k, ['lit', draw(VALS)]])
    return out


@st.composite
def _case(draw):
    kind = draw(st.sampled_from(['!call', '!call', '!bind']))
    sig0 = draw(_sig(0))
    form = draw(st.sampled_from(['map', 'map', 'map', 'list', 'scalar', 'none']))
    if form == 'map':
        args = draw(_args(sig0))
    elif form == 'list':
        args = [[i, ['lit', draw(VALS)]] for i in range(draw(st.integers(0, 4)))]
    elif form == 'scalar':
        args = [[0, ['lit', draw(st.one_of(st.integers(0, 9), st.sampled_from(['s', 2.5, True])))]]]
    else:
        args = []
    steps = []
    cur_sig = sig0
    # later documents tagged !merge at the root: a function node below it still replaces arguments / drops them on a target
    # change, because function nodes carry their own explicit delete flag (lists are not generated then: they would inherit "merge")
    under_merge = draw(st.integers(0, 3)) == 0
    prio_mode = draw(st.integers(0, 4)) == 0
    # pin mode: some arguments of the first node are tagged !force; every later step changes the target, which must drop them
    pin_mode = (not prio_mode) and draw(st.integers(0, 5)) == 0
    prio0 = draw(st.sampled_from([0, 0, 1, -1])) if prio_mode else 0
    for i in range(draw(st.sampled_from([0, 0, 1, 1, 2, 3, 4]) if not prio_mode else st.sampled_from([1, 2, 3]))):
        what = draw(st.just('node-other') if prio_mode else st.sampled_from(['node-other', 'str']) if pin_mode else
                    st.sampled_from(['map', 'map', 'list', 'str', 'node-other', 'node-same', 'node-other-merge', 'node-same-merge']))
        if under_merge and what == 'list':
            what = 'node-same'
        if what == 'map':
            steps.append({'what': 'map', 'args': draw(_args(cur_sig))})
        elif what == 'list':
            steps.append({'what': 'list', 'vals': [draw(VALS) for _ in range(draw(st.integers(0, 3)))]})
        elif what == 'str':
            cur_sig = draw(_sig(i + 1))
            steps.append({'what': 'str', 'sig': cur_sig})
        else:
            if 'other' in what:
                cur_sig = draw(_sig(i + 1))
            steps.append({'what': 'node', 'sig': cur_sig, 'merge': what.endswith('merge'), 'args': draw(_args(cur_sig)),
                          'mdstyle': draw(st.sampled_from(['braces', 'hex'])),
                          'prio': draw(st.sampled_from([0, 1, -1])) if prio_mode else 0})
    if (prio_mode or pin_mode) and form != 'map':
        form, args = 'map', draw(_args(sig0))
    pins = []
    if pin_mode:
        if not args:
            args = [['x', ['lit', 3]]]
        pins = draw(st.lists(st.integers(0, len(args) - 1), min_size=1, max_size=2, unique=True))
        if not steps:
            steps.append({'what': 'str', 'sig': draw(_sig(9))})
    return {'kind': kind, 'sig': sig0, 'form': form, 'args': args, 'steps': steps, 'prio0': prio0, 'pins': pins, 'under_merge': under_merge,
            'rebind': draw(st.integers(0, 7)) == 0,
            # a last document in which a *dynamic* scalar node stands at the key of the function node: it replaces it, as any scalar does
            'dyn': draw(st.sampled_from([None, None, None, None, 'xref', 'eval', 'import', 'fstr'])) if not (prio_mode or pin_mode) else None}


def strategy():
    return _case()


DATA = {'other': 41, 'deep': {'leaf': 'L'}}


def _val_node(spec):
    if spec[0] == 'lit':
        return tdoc.sc(spec[1])
    if spec[0] == 'eval':
        return tdoc.raw(spec[1], '!eval', q='dq')
    return tdoc.raw(spec[1], '!xref')


def _val(spec):
    if spec[0] == 'lit':
        return spec[1]
    if spec[0] == 'eval':
        return spec[2]
    cur = DATA
    for c in spec[1].split('.'):
        cur = cur[c]
    return cur


def _fn_node(kind, sig, form, args, merge=False, mdstyle='braces', prio=0, pins=()):
    tag = f'{kind}:vfrec.{sig}'
    if pins:
        items = []
        for i, (k, v) in enumerate(args):
            n = _val_node(v)
            if i in pins:
                n['prio'] = 1
                n['mdstyle'] = 'braces'
            items.append((k, n))
        return tdoc.mp(items, flow=True, tag=tag)
    fl = {'del': False, 'mdstyle': mdstyle} if merge else {}
    if prio:
        fl['prio'] = prio
        fl['mdstyle'] = mdstyle
    if form == 'map':
        return tdoc.mp([(k, _val_node(v)) for k, v in args], flow=True, tag=tag, **fl)
    if form == 'list':
        return tdoc.sq([_val_node(v) for _, v in args], flow=True, tag=tag, **fl)
    if form == 'scalar':
        n = _val_node(args[0][1])
        n['tag'] = tag
        n.update(fl)
        return n
    return {'t': 'empty', 'tag': tag, **fl}


def docs(case):
    out = [tdoc.mp([('other', tdoc.sc(41)), ('deep', tdoc.mp([('leaf', tdoc.sc('L'))])),
                    ('f', _fn_node(case['kind'], case['sig'], case['form'], case['args'], prio=case.get('prio0', 0), pins=case.get('pins', ())))])]
    for s in case['steps']:
        if s['what'] == 'map':
            n = tdoc.mp([(k, _val_node(v)) for k, v in s['args']], flow=True)
        elif s['what'] == 'list':
            n = tdoc.sq([tdoc.sc(v) for v in s['vals']], flow=True)
        elif s['what'] == 'str':
            n = tdoc.sc('vfrec.' + s['sig'])
        else:
            n = _fn_node(case['kind'], s['sig'], 'map', s['args'], merge=s['merge'], mdstyle=s['mdstyle'], prio=s.get('prio', 0))
        root = tdoc.mp([('f', n)])
        if case.get('under_merge'):
            root['del'] = False
        out.append(root)
    return out


def model_state(case):
    target = case['sig']
    args = {k: _val(v) for k, v in case['args']}
    cur_p = case.get('prio0', 0)
    for s in case['steps']:
        if s['what'] == 'node' and s.get('prio', 0) < cur_p and s['sig'] != target:
            continue        # a lower-priority function node naming another target loses as a whole (C03 rule applied to the node)
        if s['what'] == 'node':
            cur_p = s.get('prio', 0)
        if s['what'] == 'map':
            args.update({k: _val(v) for k, v in s['args']})
        elif s['what'] == 'list':
            args = dict(enumerate(s['vals']))
        elif s['what'] == 'str':
            target, args = s['sig'], {}
        else:
            new = {k: _val(v) for k, v in s['args']}
            args = {**args, **new} if s['merge'] else new
            target = s['sig']
    return target, args


class BindError(Exception):
    pass


def bind(target, args):
    """The stated rule -> (positional list, keyword dict) or BindError."""
    po, pk, nd, ko, va, vk = vfrec.sig_params(target)
    names = [f'a{i}' for i in range(po)] + [f'b{i}' for i in range(pk)]
    ints = {k: v for k, v in args.items() if isinstance(k, int) and not isinstance(k, bool)}
    kws = {k: v for k, v in args.items() if isinstance(k, str)}
    pos = []
    i = 0
    while i in ints:
        pos.append(ints.pop(i))
        i += 1
    by_name = {}
    for idx, v in ints.items():
        if idx < 0 or idx >= len(names):
            raise BindError(f'index {idx} beyond the signature')
        by_name[names[idx]] = v
    if set(by_name) & set(kws):
        raise BindError('one parameter given by position and by name')
    return pos, {**by_name, **kws}


def _rebound_name():
    """The target is whatever its name denotes when the config is evaluated: the same document built twice, the name bound to
    another function in between."""
    text = '---\nf: !call:vfrec.rebound [1, 2]\ng: !bind:vfrec.rebound {k: 3}\n'
    for n in (41, 42):
        setattr(vfrec, 'rebound', getattr(vfrec, f'call_{n}'))
        vfrec.reset()
        status, got = O.try_call(O.build_config, [text])
        if status != 'ok':
            raise Violation(f'C13: build failed: {type(got).__name__}: {got}\nsources:\n{text}')
        f, g = got['f'], got['g']
        if O.to_builtin(f).get('called') != n or getattr(g, 'func', None) is not getattr(vfrec, f'call_{n}'):
            raise Violation(f'C13: the name vfrec.rebound denotes vfrec.call_{n} now, but !call returned {O.to_builtin(f)!r} and !bind gave {g!r} '
                            f'(the document was built before, when the name denoted another function)\nsources:\n{text}')


def _builtin_targets():
    """Targets python cannot give a signature for (many builtins): positional arguments without gaps need none."""
    text = '---\na: !call:int [3]\nb: !call:range [1, 4]\nc: !bind:max [2, 5]\nd: !call:dict {k: 1}\ne: !call:int 7\n'
    status, got = O.try_call(O.build_config, [text])
    if status != 'ok':
        raise Violation(f'C13: list / scalar arguments are positions 0..n-1 of the target, but the build failed: {type(got).__name__}: {str(got)[:300]}\nsources:\n{text}')
    c = got['c']
    if got['a'] != 3 or got['b'] != range(1, 4) or got['d'] != {'k': 1} or got['e'] != 7 or not isinstance(c, functools.partial) or c.func is not max or c.args != (2, 5):
        raise Violation(f'C13: builtin targets: got {O.to_builtin(got)!r}\nsources:\n{text}')


def _dynamic_scalar_on_top(case, texts):
    """Only a *string* names a new target; a reference / expression / import / f-string node merged onto a function node is a value like
    any scalar: it takes the place of the function node, which then neither runs nor lends its name to anything."""
    kind = case['dyn']
    node, want = {'xref': (tdoc.raw('other', '!xref'), 41), 'eval': (tdoc.raw('6 * 7', '!eval', q='dq'), 42),
                  'import': (tdoc.raw('vfrec.call_43', '!import'), vfrec.call_43),
                  'fstr': ({'t': 'raw', 'text': "f'v{other}'", 'q': 'verbatim'}, 'v41')}[kind]
    last = tdoc.mp([('f', node)])
    if case.get('under_merge'):
        last['del'] = False
    texts = texts + [tdoc.render(last)]
    src = '\nsources:\n' + '\n'.join(texts)
    vfrec.reset()
    status, got = O.try_call(O.build_config, texts)
    if status != 'ok':
        raise Violation(f'C13: a !{kind} node written over the function node must take its place (value {want!r}), but the build failed: {type(got).__name__}: {str(got)[:300]}{src}')
    if 'f' not in got or (got['f'] is not want if kind == 'import' else O.canon(got['f']) != O.canon(want)):
        raise Violation(f'C13: a !{kind} node written over the function node must take its place: expected {want!r}, got {O.to_builtin(got).get("f")!r}{src}')
    if vfrec.LOG:
        raise Violation(f'C13: a !{kind} node written over the function node: a target was still called: {[e[:2] for e in vfrec.LOG]}{src}')


def run_case(case):
    if case.get('rebind'):
        _rebound_name()
        _builtin_targets()
    if case.get('dyn'):
        _dynamic_scalar_on_top(case, [tdoc.render(d) for d in docs(case)])
    ds = docs(case)
    texts = [tdoc.render(d) for d in ds]
    src = '\nsources:\n' + '\n'.join(texts)
    target_name, args = model_state(case)
    target = getattr(vfrec, target_name)
    po, pk, nd, ko, va, vk = vfrec.sig_params(target_name)
    labels = {'kind=' + case['kind'], 'form=' + case['form'], 'steps=%d' % len(case['steps'])}
    if case.get('dyn'):
        labels.add('dynamic-scalar-written-over-the-function-node')
    if case.get('prio0') or any(s.get('prio') for s in case['steps']):
        labels.add('priorities-on-function-nodes')
    if case.get('pins'):
        labels.add('force-pinned-arguments-then-retarget')
    if case.get('under_merge') and case['steps']:
        labels.add('steps-below-a-!merge-root')
    for s in case['steps']:
        labels.add('step=' + s['what'] + ('-merge' if s.get('merge') else ''))
    nontrivial = len(case['steps']) >= 2
    ints = sorted(k for k in args if isinstance(k, int))
    prefix = 0
    while prefix in ints:
        prefix += 1
    gaps = [k for k in ints if k >= prefix]
    if any(po + pk <= g for g in gaps) and not va and (ko or vk):
        labels.add('gap-index-on-keyword-only-or-**kwargs')
    if any(k < 0 for k in ints):
        labels.add('negative-index')
    try:
        pos, kw = bind(target_name, args)
        if gaps:
            nontrivial = True
            labels.add('gap-bound-by-name')
        if va and len(pos) > po + pk:
            nontrivial = True
            labels.add('varargs-overflow')
        try:
            if case['kind'] == '!call':
                expected = ('ok', target(*pos, **kw))
            else:
                expected = ('ok', (pos, kw))
        except Exception as e:     # noqa
            expected = ('err', type(e))
    except BindError as e:
        expected = ('err', None)
        labels.add('bind-error')
    vfrec.reset()
    status, got = O.try_call(O.build_config, texts)
    if expected[0] == 'err':
        labels.add('expect-error')
        if status == 'ok' and case['kind'] == '!call':
            raise Violation(f'C13: calling {target_name} with arguments {args!r} must fail ({expected[1].__name__ if expected[1] else "binding rule"}) but the build returned {O.to_builtin(got)!r}{src}')
        if status == 'ok':
            # !bind defers the call: only binding-rule errors must surface at build time
            if expected[1] is None:
                raise Violation(f'C13: binding {args!r} to {target_name} must fail (binding rule) but a partial was built{src}')
        elif type(got).__name__ != 'EvalError':
            raise Violation(f'C13: expected EvalError, got {type(got).__name__}: {got}{src}')
        elif expected[1] is not None and not any(isinstance(e, expected[1]) for e in O.exc_chain(got)):
            raise Violation(f'C13: EvalError does not carry the native {expected[1].__name__}: {got}{src}')
        return Outcome(nontrivial=nontrivial, labels=sorted(labels))
    labels.add('expect-ok')
    if status != 'ok':
        raise Violation(f'C13: {case["kind"]} of {target_name} with {args!r} should give {expected[1]!r} but the build failed: {type(got).__name__}: {got}{src}')
    if 'f' not in got:
        raise Violation(f'C13: the key holding the {case["kind"]} node is missing from the evaluated config {O.to_builtin(got)!r}{src}')
    f = got['f']
    if case['kind'] == '!call':
        if O.canon_unordered(O.to_builtin(f)) != O.canon_unordered(expected[1]):      # the order of keyword arguments carries no meaning
            raise Violation(f'C13: !call returned {O.to_builtin(f)!r}, python binding gives {expected[1]!r} (target {target_name}, args {args!r}){src}')
    else:
        if not isinstance(f, functools.partial) or f.func is not target or O.canon(list(f.args)) != O.canon(pos) or O.canon_unordered(dict(f.keywords)) != O.canon_unordered(kw):
            raise Violation(f'C13: !bind gave {f!r}; expected partial({target_name}, *{pos!r}, **{kw!r}){src}')
        if vfrec.LOG:
            raise Violation(f'C13: !bind called the target{src}')
    return Outcome(nontrivial=nontrivial, labels=sorted(labels))


def sample_repr(case):
    return [tdoc.render(d) for d in docs(case)]
