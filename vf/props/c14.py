"""C14 - a build succeeds iff no !required placeholder survives merging; the error lists every surviving path.

Oracle: AST-level right-biased fold with !required as an opaque leaf and function nodes as tagged mappings.
"""
from hypothesis import strategies as st

import vfrec
from .. import tdoc, strategies as S, observe as O
from ..core import Violation, Outcome

ID = 'C14'
TITLE = 'build fails iff a !required survives, naming every such path, before anything is evaluated'
RULE = ('a tree with !required (also with {{metadata}}) at random positions - top level, nested mappings, list elements, arguments of '
        '!call/!bind nodes - plus canary !call nodes; 0-3 later plain stages derived from it that leave, override (scalar / container / '
        'mapping-onto-list index / call-argument mapping), replace the enclosing list, or delete (value-less !del) any subset; '
        'non-trivial = >=2 placeholders of which >=1 overridden/deleted and >=1 inside a list or call argument; distinct = hash of the case')
BUDGET = {'quick': (4, 600), 'thorough': (16, 10000)}
ASSUMPTIONS = ['later stages never put a string onto a function node (Call <- str renames the target by design)',
               'call arguments are string-keyed (positional gaps are the subject of C13)']

KEYS = ['a', 'b', 'c', 'm', '_r', 0, 1]
ARGK = ['x', 'y', 'z']


def _req(draw, counter=None):
    # yaml anchors / aliases: one placeholder node object reachable at several positions (each position is its own slot)
    if counter is not None and counter[1] and draw(st.integers(0, 2)) == 0:
        return {'t': 'alias', 'name': f'r{draw(st.integers(1, counter[1]))}'}
    n = {'t': 'empty', 'tag': '!required'}
    if counter is not None and draw(st.integers(0, 2)) == 0:
        counter[1] += 1
        n['anchor'] = f'r{counter[1]}'
    if draw(st.integers(0, 3)) == 0:
        n['md'] = {'why': 'needed'}
        n['mdstyle'] = draw(st.sampled_from(['braces', 'hex']))
    return n


@st.composite
def _tree(draw, counter, depth=0):
    n = draw(st.integers(2, 4) if depth == 0 else st.integers(1, 3))
    keys = draw(st.lists(st.sampled_from(KEYS), min_size=n, max_size=n, unique=True))
    items = []
    for k in keys:
        items.append([k, draw(_value(counter, depth))])
    return tdoc.mp(items, flow=depth > 0 and draw(st.booleans()))


@st.composite
def _value(draw, counter, depth):
    c = draw(st.integers(-1, 9))
    if c <= 1:
        return _req(draw, counter)
    if c == 2 and depth < 3:
        return draw(_tree(counter, depth + 1))
    if c == 3 and depth < 3:
        return tdoc.sq([draw(_value(counter, depth + 1)) for _ in range(draw(st.integers(1, 3)))], flow=draw(st.booleans()))
    if c in (4, 5) and depth < 3:
        counter[0] += 1
        kind = draw(st.sampled_from(['!call', '!call', '!bind']))
        nargs = draw(st.integers(0, 2))
        ks = draw(st.lists(st.sampled_from(ARGK), min_size=nargs, max_size=nargs, unique=True))
        return tdoc.mp([(k, draw(_value(counter, depth + 2))) for k in ks], flow=True, tag=f'{kind}:vfrec.call_{counter[0]}')
    return tdoc.sc(draw(st.integers(0, 9)))


def _is_fn(n):
    return str(n.get('tag', '')).startswith(('!call', '!bind'))


def _is_req(n):
    return n.get('tag') == '!required' or n['t'] == 'alias'


@st.composite
def _later(draw, node, top=True):
    """A plain document deriving from `node` (a mapping-like AST): returns AST map or None (nothing mentioned)."""
    items = []
    for k, v in node['items']:
        a = draw(st.integers(0, 9))
        if a <= 3:
            continue                                        # leave
        if a == 4:
            items.append([k, tdoc.sc(draw(st.integers(10, 19)))])     # override with a scalar
        elif a == 5:
            items.append([k, tdoc.empty(**{'del': True})])          # value-less !del removes the key
        elif a == 6:
            items.append([k, tdoc.sq([tdoc.sc(draw(st.integers(20, 29))) for _ in range(draw(st.integers(0, 2)))], flow=True)])
        elif v['t'] == 'map' and _is_fn(v) and a >= 8:
            # the call / bind node is stated again (same target, fresh arguments): by the merge table this replaces the old arguments,
            # also when an ancestor of the newer document says !merge
            items.append([k, {**tdoc.mp([('y', tdoc.sc(draw(st.integers(40, 49))))], flow=True), 'tag': v['tag']}])
        elif v['t'] == 'map':
            if _is_fn(v) and any(isinstance(kk, int) for kk, _ in v['items']):
                continue        # positional arguments (after a list override): leaving gaps is the subject of C13
            sub = draw(_later(v, False))
            if sub is not None:
                items.append([k, sub])
        elif v['t'] == 'seq' and v['items']:
            n = len(v['items'])
            idxs = draw(st.lists(st.integers(-n, n - 1), min_size=1, max_size=2, unique_by=lambda i: i % n))
            sub = []
            for i in idxs:
                e = v['items'][i]
                if e['t'] == 'map':
                    s2 = draw(_later(e, False))
                    if s2 is not None:
                        sub.append([i, s2])
                else:
                    sub.append([i, tdoc.sc(draw(st.integers(30, 39)))])
            if sub:
                items.append([k, tdoc.mp(sub, flow=draw(st.booleans()))])
    if not items and not top:
        return None
    out = tdoc.mp(items, flow=(not top) and draw(st.booleans()))
    if top and draw(st.integers(0, 3)) == 0:
        out['del'] = False          # a !merge document: changes nothing for plain mappings, lists would merge index-wise (none generated then)
        if any(n['t'] == 'seq' for _, n in tdoc.walk(out)):
            del out['del']
    return out


def fold(a, b):
    """AST-level merge of a plain newer node b onto older node a. Returns AST or 'REMOVE'."""
    if b['t'] == 'empty' and b.get('del') is True:
        return 'REMOVE'
    if b['t'] in ('sc', 'empty', 'alias'):
        return b
    if _is_fn(b):
        return b            # a function node replaces what was there (also the arguments of an older function node)
    if b['t'] == 'seq':
        if _is_fn(a):
            return {**a, 'items': [[i, v] for i, v in enumerate(b['items'])]}
        return b
    # b is a plain mapping
    if a['t'] == 'map':
        items = [[k, v] for k, v in a['items']]
        for k, v in b['items']:
            hit = [i for i, (kk, _) in enumerate(items) if kk == k and type(kk) is type(k)]
            if hit:
                r = fold(items[hit[0]][1], v)
                if r == 'REMOVE':
                    del items[hit[0]]
                else:
                    items[hit[0]][1] = r
            else:
                items.append([k, v])
        return {**a, 'items': items}
    if a['t'] == 'seq':
        items = list(a['items'])
        for k, v in b['items']:
            r = fold(items[k], v)
            items[k] = r
        return {**a, 'items': items}
    return b


def required_paths(n, path=()):
    out = []
    if _is_req(n):
        out.append(path)
    if n['t'] == 'map':
        for k, v in n['items']:
            out += required_paths(v, path + (k,))
    elif n['t'] == 'seq':
        for i, v in enumerate(n['items']):
            out += required_paths(v, path + (i,))
    return out


def path_str(path):
    out = ''
    for c in path:
        out += f'[{c}]' if isinstance(c, int) else ('.' if out else '') + str(c)
    return out


@st.composite
def _case(draw):
    counter = [0, 0]
    base = draw(_tree(counter))
    stages = [base]
    cur = base
    for _ in range(draw(st.sampled_from([0, 1, 1, 2, 2, 3]))):
        d = draw(_later(cur))
        stages.append(d)
        cur = fold(cur, d)
    return {'stages': stages, 'forced': draw(st.sampled_from([None, None, None, None, 'del', 'del+set']))}


def strategy():
    return _case()


def _forced_scenario(kind):
    """A placeholder protected by a priority of its own, three levels below a key which a later stage replaces with a !del mapping:
    it survives the replacement (protected entries do, at any depth) and counts - unless a still later stage sets it with the same force."""
    first = ['fp', tdoc.mp([('s', tdoc.sc(1)), ('mid', tdoc.mp([('deep', tdoc.mp([
        ('need', {'t': 'empty', 'tag': '!required', 'prio': 1, 'mdstyle': 'braces'}), ('o', tdoc.sc(2))]))]))])]
    later = [tdoc.mp([('fp', tdoc.mp([('s', tdoc.sc(5))], flow=True, **{'del': True}))])]
    if kind == 'del+set':
        later.append(tdoc.mp([('fp', tdoc.mp([('mid', tdoc.mp([('deep', tdoc.mp([('need', tdoc.sc(7, prio=1))], flow=True))], flow=True))], flow=True))]))
    return first, later


def run_case(case):
    stages = case['stages']
    cur = stages[0]
    for d in stages[1:]:
        cur = fold(cur, d)
    initial = required_paths(stages[0])
    surv = required_paths(cur)
    forced = case.get('forced')
    if forced:
        first, later = _forced_scenario(forced)
        stages = [tdoc.mp(list(stages[0]['items']) + [first], **{k: v for k, v in stages[0].items() if k not in ('t', 'items')})] + list(stages[1:]) + later
        if forced == 'del':
            surv = list(surv) + [('fp', 'mid', 'deep', 'need')]
    texts = [tdoc.render(s) for s in stages]
    all_paths_ever = set(initial)
    labels = {f'stages={len(stages)}', 'placeholders=%d' % min(len(initial), 4), 'survivors=%d' % min(len(surv), 4)}
    if forced:
        labels.add('forced-placeholder-below-a-replaced-key:' + forced)
    if any(n['t'] == 'alias' for _, n in tdoc.walk(stages[0])):
        labels.add('aliased-placeholder')
    in_special = False
    for p in initial:
        n = stages[0]
        for c in p[:-1]:
            n = [v for k, v in n['items'] if k == c and type(k) is type(c)][0] if n['t'] == 'map' else n['items'][c]
            if n['t'] == 'seq' or _is_fn(n):
                in_special = True
    nontrivial = len(initial) >= 2 and len(surv) < len(initial) and in_special
    src = '\nsources:\n' + '\n'.join(texts)
    vfrec.reset()
    status, got = O.try_call(O.build_config, texts)
    ran = list(vfrec.calls())
    if surv:
        if status == 'ok':
            raise Violation(f'C14: !required nodes survive at {[path_str(p) for p in surv]} but the build succeeded: {O.to_builtin(got)!r}{src}')
        if type(got) is not ValueError:
            raise Violation(f'C14: expected the "required nodes have not been set" ValueError, got {type(got).__name__}: {got}{src}')
        msg = str(got)
        listed = [ln.strip() for ln in msg.split('\n')[1:] if ln.strip()]
        want = sorted(repr(path_str(p)) for p in surv)
        if sorted(listed) != want:
            raise Violation(f'C14: error lists {sorted(listed)} but the surviving placeholders are {want}{src}')
        if ran:
            raise Violation(f'C14: dynamic nodes {ran} were evaluated although the build fails for missing required nodes{src}')
        labels.add('expect-fail')
    else:
        if status != 'ok':
            raise Violation(f'C14: no !required node survives merging, yet the build failed: {type(got).__name__}: {got}{src}')
        labels.add('expect-ok')
    return Outcome(nontrivial=nontrivial, labels=sorted(labels))


def sample_repr(case):
    return [tdoc.render(s) for s in case['stages']]
