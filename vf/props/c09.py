"""C09 - cross-references alias their target, in any order, and always terminate.

Oracle: a reference-graph model (resolution by following edges; dependency cycles incl. containment => error),
object identity in the evaluated config, and a deterministic step budget instead of a wall clock for "never hangs".
"""
from hypothesis import strategies as st

import vfrec
from .. import tdoc, observe as O
from ..budget import StepBudget, StepBudgetExceeded
from ..core import Violation, Outcome

ID = 'C09'
TITLE = 'xref aliasing, order independence, termination'
RULE = ('data nodes (scalars, lists, mappings, !call producing fresh objects) spread over 1-3 documents and up to 12 (chain mode: 30) '
        '!xref/!ref nodes (next to flat keys spelled like nested paths) at top level, inside a mapping, inside a list and inside call arguments, each pointing to a data node, an element '
        'inside a container, a value that evaluates to something falsy, another reference, a later-defined path, a missing path (also one that would be a valid subscript of the evaluated value of its prefix), the empty path, itself, its own '
        'container or closing a cycle; optionally an earlier document holding a plain string spelled like the referenced path (or another '
        'scalar) under the key of a reference; optionally a previous build with the same EvalContext; '
        'non-trivial = identity checked on a fresh mutable target through a chain of length >=2 or with fan-in >=2, or the graph has a '
        'cycle / dangling edge; distinct = hash of the case.  Every build runs under a budget of %d line events.' % 400000)
BUDGET = {'quick': (4, 400), 'thorough': (16, 5000)}
STEP_LIMIT = 5000000
MAX_STEPS = 0
ASSUMPTIONS = ['reference paths that run through another reference are not generated (the statement speaks of chains)',
               '"never hangs" is decided as: terminates within 5000000 traced line events inside the package (largest terminating case observed: about 130000 for a chain of 30)']

DATA_TARGETS = [['d1'], ['d2'], ['d2', 0], ['d2', 1], ['d2', 1, 'k'], ['d3'], ['d3', 'm'], ['d3', 'm', 'n'], ['d3', 'l'], ['d3', 'l', 1], ['f1'], ['f2'],
                ['box'], ['arr'], ['box', 'v'], ['e1'], ['e2'], ['d3', 'z'], ['e0'], ['s1']]
# e1: [], e2: {}, d3.z: [] and e0: 0.0 evaluate to falsy values (an "is it cached" test must not confuse them with "not cached")
MUTABLE = {('d2',), ('d2', 1), ('d3',), ('d3', 'm'), ('d3', 'l'), ('f1',), ('f2',), ('box',), ('arr',), ('e1',), ('e2',), ('d3', 'z')}


def pstr(path):
    out = ''
    for c in path:
        out += f'[{c}]' if isinstance(c, int) else ('.' if out else '') + c
    return out


@st.composite
def _case(draw):
    chain_mode = draw(st.integers(0, 7)) == 0
    clean = draw(st.booleans())         # well-formed graphs only (forward references, pure data targets), so that identity is exercised
    nrefs = draw(st.integers(2, 30)) if chain_mode else draw(st.integers(1, 12))
    slots = []
    counts = {'top': 0, 'box': 0, 'arr': 0, 'arg': 0}
    for i in range(nrefs):
        where = 'top' if chain_mode else draw(st.sampled_from(['top', 'top', 'top', 'box', 'arr', 'arg']))
        if where == 'top':
            path = [f'r{i}']
        elif where == 'box':
            path = ['box', f'r{i}']
        elif where == 'arr':
            path = ['arr', counts['arr']]
        else:
            path = ['f2', f'r{i}']
        counts[where] += 1
        slots.append({'path': path, 'tag': draw(st.sampled_from(['!xref', '!xref', '!ref']))})
    for i, s in enumerate(slots):
        if chain_mode:
            kind = 'ref' if i + 1 < nrefs else draw(st.sampled_from(['data', 'data', 'missing', 'cycle']))
            if kind == 'ref':
                s['to'] = slots[i + 1]['path']
            elif kind == 'cycle':
                s['to'] = slots[draw(st.integers(0, i))]['path']
            elif kind == 'missing':
                s['to'] = ['nope']
            else:
                s['to'] = DATA_TARGETS[draw(st.integers(0, len(DATA_TARGETS) - 1))]
        else:
            kind = draw(st.sampled_from(['data'] * 6 + ['ref'] * 5 + ([] if clean else ['missing', 'self', 'deepmissing', 'deepmissing', 'root'])))
            if kind == 'ref' and clean and i + 1 >= nrefs:
                kind = 'data'
            if kind == 'data':
                pool = [t for t in DATA_TARGETS if t[0] not in ('box', 'arr', 'f2') or t == ['box', 'v']] if clean else DATA_TARGETS
                if draw(st.integers(0, 3)) == 0:
                    pool = [['e1'], ['e2'], ['d3', 'z'], ['e0']]
                s['to'] = pool[draw(st.integers(0, len(pool) - 1))]
            elif kind == 'ref':
                s['to'] = slots[draw(st.integers(i + 1 if clean else 0, nrefs - 1))]['path']
            elif kind == 'missing':
                s['to'] = [draw(st.sampled_from(['nope', 'd9']))]
            elif kind == 'root':
                s['to'] = []            # the empty path: the whole config, which contains the reference itself
            elif kind == 'deepmissing':
                # the last four are not nodes of the config although the *evaluated* value of their prefix could be subscripted that way
                s['to'] = draw(st.sampled_from([['d1', 'x'], ['d2', 7], ['d3', 'm', 'zz'], ['box', 'none'],
                                                ['s1', 0], ['s1', -1], ['f1', 'called'], ['f1', 'kw'],
                                                ['f3', -1], ['f3', -2], ['f3', -3]]))       # (arguments of a function node are not counted from the end)
            else:
                s['to'] = s['path']
    order = draw(st.permutations(['d1', 'd2', 'd3', 'f1', 'f2', 'box', 'arr', 'e1', 'e2', 'e0', 's1', 'd3.m', 'd2[1]', 'f3'] + [s['path'][0] for s in slots if len(s['path']) == 1]))
    ndocs = draw(st.integers(1, 3))
    split = [draw(st.integers(0, ndocs - 1)) for _ in order]
    # an earlier document may already hold something else under the key of a top-level reference: a plain string spelled exactly like
    # the referenced path, another string, or null - the reference written later replaces it like any value replaces a scalar
    before = []
    if ndocs >= 2 and draw(st.integers(0, 2)) == 0:
        tops = [i for i, s in enumerate(slots) if len(s['path']) == 1]
        for i in draw(st.lists(st.sampled_from(tops), max_size=2, unique=True)) if tops else []:
            before.append([i, draw(st.sampled_from(['pathtext', 'pathtext', 'other', 'null'])), draw(st.integers(0, 5))])
    return {'slots': slots, 'order': list(order), 'split': split, 'ndocs': ndocs, 'prebuild': draw(st.integers(0, 2)) == 0, 'before': before}


def strategy():
    return _case()


def docs(case):
    slots = case['slots']

    def ref(s):
        return tdoc.raw(pstr(s['to']), s['tag'], **({} if s['to'] else {'q': 'dq'}))
    top = {
        'd1': tdoc.sc(5),
        'd2': tdoc.sq([tdoc.sc(1), tdoc.mp([('k', tdoc.sc(2))], flow=True)], flow=True),
        'd3': tdoc.mp([('m', tdoc.mp([('n', tdoc.sc(3))], flow=True)), ('l', tdoc.sq([tdoc.sc(4), tdoc.sc(5)], flow=True)), ('z', tdoc.sq([], flow=True))]),
        'e1': tdoc.sq([], flow=True), 'e2': tdoc.mp([], flow=True), 'e0': tdoc.sc(0.0), 's1': tdoc.sc('resnet'),
        'f3': tdoc.mp([(0, tdoc.sq([tdoc.sc(10)], flow=True)), (1, tdoc.sq([tdoc.sc(11)], flow=True)), ('sep', tdoc.sq([tdoc.sc(12)], flow=True))], flow=True, tag='!bind:vfrec.call_3'),
        'd3.m': tdoc.sq([tdoc.sc(77)], flow=True), 'd2[1]': tdoc.sc(78),     # flat keys spelled like the paths d3.m and d2[1]: never what a reference means
        'f1': tdoc.mp([], flow=True, tag='!call:vfrec.call_1'),
        'f2': tdoc.mp([('x', tdoc.sc(0))] + [(s['path'][1], ref(s)) for s in slots if s['path'][0] == 'f2'], tag='!call:vfrec.call_2'),
        'box': tdoc.mp([('v', tdoc.sc(8))] + [(s['path'][1], ref(s)) for s in slots if s['path'][0] == 'box']),
        'arr': tdoc.sq([ref(s) for s in slots if s['path'][0] == 'arr'] + [tdoc.sc(9)]),
    }
    for s in slots:
        if len(s['path']) == 1:
            top[s['path'][0]] = ref(s)
    out = [[] for _ in range(case['ndocs'])]
    where = {}
    for k, d in zip(case['order'], case['split']):
        out[d].append([k, top[k]])
        where[k] = d
    for i, kind, r in case.get('before', []):
        key = slots[i]['path'][0]
        d = where.get(key, 0)
        if d >= 1:
            node = tdoc.sc(pstr(slots[i]['to']), q='single') if kind == 'pathtext' else tdoc.sc('some text') if kind == 'other' else tdoc.sc(None)
            out[r % d].append([key, node])
    return [tdoc.mp(items) for items in out if items]


def analyse(case):
    """-> ('ok', {slot path: final data path}) | ('error', reason)"""
    slots = {tuple(s['path']): tuple(s['to']) for s in case['slots']}
    narr = sum(1 for s in case['slots'] if s['path'][0] == 'arr')
    data = {('d1',), ('d2',), ('d2', 0), ('d2', 1), ('d2', 1, 'k'), ('d3',), ('d3', 'm'), ('d3', 'm', 'n'), ('d3', 'l'), ('d3', 'l', 0), ('d3', 'l', 1),
            ('f1',), ('f2',), ('f2', 'x'), ('box',), ('box', 'v'), ('arr',), ('arr', narr), ('e1',), ('e2',), ('e0',), ('d3', 'z'), ('s1',)}
    children = {}
    for p in list(data) + list(slots):
        for i in range(1, len(p)):
            children.setdefault(p[:i], set()).add(p[:i + 1])
    exists = data | set(slots)
    for p, t in slots.items():
        if t not in exists:
            return 'error', f'dangling reference {pstr(p)} -> {pstr(t)}'
    # dependency graph: container -> children, reference -> target node
    WHITE, GREY, BLACK = 0, 1, 2
    color = {}

    def visit(p):
        c = color.get(p, WHITE)
        if c == GREY:
            return True
        if c == BLACK:
            return False
        color[p] = GREY
        deps = [slots[p]] if p in slots else sorted(children.get(p, ()), key=repr)
        for d in deps:
            if visit(d):
                return True
        color[p] = BLACK
        return False
    for p in sorted(exists, key=repr):
        if visit(p):
            return 'error', f'cycle through {pstr(p)}'
    final = {}
    for p in slots:
        t = slots[p]
        n = 1
        while t in slots:
            t = slots[t]
            n += 1
        final[p] = (t, n)
    return 'ok', final


def run_case(case):
    ds = docs(case)
    texts = [tdoc.render(d) for d in ds]
    src = '\nsources:\n' + '\n'.join(texts)
    verdict, info = analyse(case)
    labels = {'docs=%d' % len(ds), 'expect-' + verdict, 'refs=%s' % ('>12' if len(case['slots']) > 12 else '<=12')}
    if any("'" + pstr(s['to']) + "'" in t for s in case['slots'] for t in texts):
        labels.add('reference-written-over-a-string-spelled-like-its-path')
    ctx = None
    if case.get('prebuild') and verdict == 'ok':
        # the same evaluation context has already evaluated this config once: nothing of that may show in the second build
        from awesomeyaml import EvalContext
        ctx = EvalContext()
        O.try_call(O.build_config, texts, eval_ctx=ctx)
        labels.add('context-reused-after-an-earlier-build')
    vfrec.reset()
    try:
        with StepBudget(STEP_LIMIT) as sb:
            status, got = O.try_call(O.build_config, texts, eval_ctx=ctx)
    except StepBudgetExceeded:
        raise Violation(f'C09: evaluation does not terminate (more than {STEP_LIMIT} line events inside awesomeyaml){src}')
    except RecursionError:
        raise Violation(f'C09: evaluation ended in an unhandled RecursionError{src}')
    labels.add('steps<%d' % (10 ** len(str(sb.steps))))
    global MAX_STEPS
    MAX_STEPS = max(MAX_STEPS, sb.steps)
    if verdict == 'error':
        if status == 'ok':
            raise Violation(f'C09: {info}: expected an evaluation error, got {O.to_builtin(got)!r}{src}')
        if type(got).__name__ != 'EvalError':
            raise Violation(f'C09: {info}: expected EvalError, got {type(got).__name__}: {str(got)[:300]}{src}')
        return Outcome(nontrivial=True, labels=sorted(labels))
    if status != 'ok':
        raise Violation(f'C09: reference graph is well-formed but the build failed: {type(got).__name__}: {str(got)[:600]}{src}')
    nontrivial = False
    fanin = {}
    for p, (t, n) in info.items():
        fanin[t] = fanin.get(t, 0) + 1

    def at(path):
        cur = got
        for c in path:
            cur = cur[c]
        return cur
    calls = {}
    for e in vfrec.LOG:
        calls[e[1]] = e
    for p, (t, n) in info.items():
        if p[0] == 'f2':
            have = calls[2][3][p[1]]        # the object the call actually received
        else:
            have = at(p)
        want = at(t)
        if have is not want:
            raise Violation(f'C09: reference at {pstr(p)} (chain length {n}) evaluates to {have!r} which is not the same object as the target '
                            f'at {pstr(t)} ({want!r}){src}')
        if t in MUTABLE and (n >= 2 or fanin[t] >= 2):
            nontrivial = True
        labels.add('chain=%s' % ('1' if n == 1 else '2-5' if n <= 5 else '6+'))
    return Outcome(nontrivial=nontrivial, labels=sorted(labels))


def sample_repr(case):
    return [tdoc.render(d) for d in docs(case)]
