"""C17 - node containers stay consistent under any sequence of API operations.

Model-based: a plain python dict/list tree is driven with the same operation history; invariants over the whole
tree after every step.  Histories are generated as plain data (op lists with interpretive addressing) so that a
failing history is a JSON replay that shrinks as one value.
"""
import copy

from hypothesis import strategies as st

from .. import tdoc, strategies as S, observe as O
from ..core import Violation, Outcome

ID = 'C17'
TITLE = 'containers consistent under any operation history'
RULE = ('random plain tree, then 1-25 operations on interpretively addressed containers: item/attribute set and delete, update, setdefault, '
        'pop, clear, ayns.set_child/remove_child/rename_child on mappings; item set/delete, append, insert, extend, remove, pop, clear, '
        'ayns.set_child/remove_child on lists (out-of-range set_child as a consistency-only step); indices in range, negative and out of range; keys existing, new, underscore, negative integers; values scalars and '
        'nested containers; non-trivial = an insert/pop/rename after >=1 other mutation of the same container; distinct = hash of the case')
BUDGET = {'quick': (4, 500), 'thorough': (16, 8000)}
ASSUMPTIONS = ['ayns.rename_child on a list and ayns.set_child beyond the append position are applied and only the consistency of the two views is checked afterwards (what they should do is not stated)',
               'attribute assignment only for non-underscore identifier keys (underscore names are python attributes by design)',
               'values are plain data (no pre-built nodes shared between two places)']

KEYS = ['a', 'b', 'c', 'k1', '_u', '_v', 0, 1, 2, -1, -2]
ATTR_KEYS = ['a', 'b', 'c', 'k1']
LEAF = st.one_of(st.integers(0, 9), st.sampled_from(['s', 't', '', 1.5, True, None]))
VALUE = st.recursive(LEAF, lambda ch: st.one_of(st.lists(ch, max_size=3), st.dictionaries(st.sampled_from(KEYS), ch, max_size=3)), max_leaves=5)

MAP_OPS = ['setitem', 'setitem', 'delitem', 'setattr', 'delattr', 'update', 'update_kw', 'setdefault', 'pop', 'pop_default', 'clear',
           'set_child', 'remove_child', 'rename_child', 'rename_child']
LIST_OPS = ['setitem', 'setitem', 'delitem', 'append', 'append', 'insert', 'insert', 'extend', 'extend_self', 'remove', 'pop', 'pop', 'pop_noarg', 'clear',
            'set_child', 'remove_child', 'rename_child']


@st.composite
def _op(draw):
    return {
        'tgt': draw(st.integers(0, 7)),
        'mop': draw(st.sampled_from(MAP_OPS)),
        'lop': draw(st.sampled_from(LIST_OPS)),
        'k': draw(st.sampled_from(KEYS)),
        'k2': draw(st.sampled_from(KEYS)),
        'ak': draw(st.sampled_from(ATTR_KEYS)),
        'i': draw(st.integers(-5, 5)),
        'v': draw(VALUE),
        'vs': draw(st.lists(VALUE, max_size=3)),
        'existing': draw(st.booleans()),
        'pick': draw(st.integers(0, 5)),
    }


def strategy():
    init = st.dictionaries(st.sampled_from(KEYS), VALUE, min_size=1, max_size=4)
    return st.builds(lambda i, ops, fy: {'init': _jsonable(i), 'ops': [dict(o, v=_jsonable(o['v']), vs=[_jsonable(x) for x in o['vs']]) for o in ops], 'from_yaml': fy == 0},
                     init, st.lists(_op(), min_size=1, max_size=25), st.integers(0, 2))


# JSON cannot hold int dict keys: encode dicts as {'__d': [[k, v], ...]}
def _jsonable(v):
    if isinstance(v, dict):
        return {'__d': [[k, _jsonable(x)] for k, x in v.items()]}
    if isinstance(v, list):
        return [_jsonable(x) for x in v]
    return v


def _unjson(v):
    if isinstance(v, dict):
        return {k: _unjson(x) for k, x in v['__d']}
    if isinstance(v, list):
        return [_unjson(x) for x in v]
    return v


def containers(model, path=()):
    out = [path]
    if isinstance(model, dict):
        for k, v in model.items():
            if isinstance(v, (dict, list)):
                out += containers(v, path + (k,))
    else:
        for i, v in enumerate(model):
            if isinstance(v, (dict, list)):
                out += containers(v, path + (i,))
    return out


def _mget(model, path):
    for c in path:
        model = model[c]
    return model


def _nget(node, path):
    for c in path:
        node = node[c]
    return node


class Raised(Exception):
    pass


class Unspecified(Exception):
    pass


def apply_model(m, op):
    """Apply op to model container m.  Returns description; raises Raised(exc) if the builtin raises."""
    v = copy.deepcopy(_unjson(op['v']))
    vs = copy.deepcopy([_unjson(x) for x in op['vs']])
    try:
        if isinstance(m, dict):
            name = op['mop']
            keys = list(m)
            k = keys[op['pick'] % len(keys)] if (op['existing'] and keys) else op['k']
            if name == 'setitem' or name == 'set_child':
                m[k] = v
            elif name == 'delitem' or name == 'remove_child':
                del m[k]
            elif name == 'setattr':
                k = op['ak']
                m[k] = v
            elif name == 'delattr':
                k = op['ak'] if not (op['existing'] and [x for x in keys if x in ATTR_KEYS]) else [x for x in keys if x in ATTR_KEYS][op['pick'] % len([x for x in keys if x in ATTR_KEYS])]
                del m[k]
            elif name == 'update':
                upd = v if isinstance(v, dict) else {op['k']: v, op['k2']: 1}
                m.update(upd)
                return name, (upd,)
            elif name == 'update_kw':
                m.update({op['ak']: v})
                return name, (op['ak'], v)
            elif name == 'setdefault':
                m.setdefault(k, v)
            elif name == 'pop':
                m.pop(k)
            elif name == 'pop_default':
                m.pop(k, 'dflt')
            elif name == 'clear':
                m.clear()
            elif name == 'rename_child':
                new = op['k2']
                if k not in m or new in m:
                    raise ValueError('rename')
                items = list(m.items())
                val = m.pop(k)
                m[new] = val
                return name, (k, new)
            return name, (k, v)
        else:
            name = op['lop']
            n = len(m)
            i = op['i']
            if op['existing'] and n:
                i = (op['pick'] % n) - (n if op['i'] < 0 else 0)
            if name == 'setitem':
                m[i] = v
            elif name == 'delitem' or name == 'remove_child':
                del m[i]
            elif name == 'append':
                m.append(v)
            elif name == 'insert':
                m.insert(i, v)
            elif name == 'extend':
                m.extend(vs)
                return name, (vs,)
            elif name == 'extend_self':
                # the list extended by itself (scalars only, so that no container ends up at two places)
                if any(isinstance(x, (list, dict)) for x in m):
                    m.extend(vs)
                    return 'extend', (vs,)
                m.extend(list(m))
                return name, ()
            elif name == 'remove':
                target = m[op['pick'] % n] if (op['existing'] and n) else v
                m.remove(target)
                return name, (target,)
            elif name == 'pop':
                m.pop(i)
            elif name == 'pop_noarg':
                m.pop()
            elif name == 'clear':
                m.clear()
            elif name == 'rename_child':
                # the elements of a list have no names to change: whatever the node does with the request (it may refuse), both views
                # must still agree afterwards - applied to the node, the model is re-read from it, consistency only
                raise Unspecified((i, n + 2 + (op['pick'] % 3)))      # (a number no element has)
            elif name == 'set_child':
                if not (-n <= i <= n):
                    # what ayns.set_child does beyond the append position / below -len is not stated anywhere: the operation is
                    # still applied to the node, the model is re-read from it afterwards and only the consistency invariants are checked
                    raise Unspecified((i, v))
                if i == n:
                    m.append(v)
                else:
                    m[i] = v
            return name, (i, v)
    except (KeyError, IndexError, ValueError) as e:
        raise Raised(e)


def apply_node(node, name, args):
    if isinstance(node, dict):
        if name == 'setitem':
            node[args[0]] = args[1]
        elif name == 'set_child':
            node.ayns.set_child(args[0], args[1])
        elif name == 'delitem':
            del node[args[0]]
        elif name == 'remove_child':
            node.ayns.remove_child(args[0])
        elif name == 'setattr':
            setattr(node, args[0], args[1])
        elif name == 'delattr':
            delattr(node, args[0])
        elif name == 'update':
            node.update(args[0])
        elif name == 'update_kw':
            node.update({}, **{args[0]: args[1]})
        elif name == 'setdefault':
            node.setdefault(args[0], args[1])
        elif name == 'pop':
            node.pop(args[0])
        elif name == 'pop_default':
            node.pop(args[0], 'dflt')
        elif name == 'clear':
            node.clear()
        elif name == 'rename_child':
            node.ayns.rename_child(args[0], args[1])
    else:
        if name == 'setitem':
            node[args[0]] = args[1]
        elif name == 'delitem':
            del node[args[0]]
        elif name == 'remove_child':
            node.ayns.remove_child(args[0])
        elif name == 'append':
            node.append(args[1])
        elif name == 'insert':
            node.insert(args[0], args[1])
        elif name == 'extend':
            node.extend(args[0])
        elif name == 'extend_self':
            from ..budget import StepBudget, StepBudgetExceeded
            try:
                with StepBudget(200000):
                    node.extend(node)
            except StepBudgetExceeded:
                raise Violation('C17: extending a list by itself does not terminate (more than 200000 line events inside awesomeyaml)')
        elif name == 'remove':
            node.remove(args[0])
        elif name == 'pop':
            node.pop(args[0])
        elif name == 'pop_noarg':
            node.pop()
        elif name == 'clear':
            node.clear()
        elif name == 'set_child':
            node.ayns.set_child(args[0], args[1])
        elif name == 'rename_child':
            node.ayns.rename_child(args[0], args[1])


def describe(op_desc):
    return f'{op_desc[0]} at {list(op_desc[1])}: {op_desc[2]}{op_desc[3]!r}'


def check_invariants(root, model, history):
    from awesomeyaml.nodes.node import ConfigNode
    from awesomeyaml.nodes.composed import ComposedNode
    from awesomeyaml.nodes.node_path import NodePath
    from awesomeyaml.eval_context import EvalContext
    hist = '\nhistory:\n  ' + '\n  '.join(history)

    def rec(node, m, path):
        if isinstance(m, dict):
            builtin = list(dict.items(node))
        else:
            builtin = list(enumerate(list.__iter__(node)))
        kids = list(node.ayns.named_children())
        bk = [(k.ayns.native_value if isinstance(k, ConfigNode) else k) for k, _ in builtin]
        ck = [(k.ayns.native_value if isinstance(k, ConfigNode) else k) for k, _ in kids]
        if bk != ck or [type(k) for k in bk] != [type(k) for k in ck]:
            raise Violation(f'C17: at {list(path)} the built-in {type(m).__name__} view has keys {bk} but the child map has {ck}{hist}')
        for (k1, v1), (k2, v2) in zip(builtin, kids):
            if v1 is not v2:
                raise Violation(f'C17: at {list(path)} entry {k1!r} differs between the built-in view ({v1!r}) and the child map ({v2!r}){hist}')
            if not isinstance(v1, ConfigNode):
                raise Violation(f'C17: at {list(path)} entry {k1!r} is not a node: {v1!r}{hist}')
        if isinstance(m, list) and ck != list(range(len(ck))):
            raise Violation(f'C17: at {list(path)} list children are numbered {ck}{hist}')
        mk = list(m) if isinstance(m, dict) else list(range(len(m)))
        if O.canon(mk) != O.canon(bk):
            raise Violation(f'C17: at {list(path)} keys {bk} differ from the model {mk}{hist}')
        for k, child in kids:
            kk = k.ayns.native_value if isinstance(k, ConfigNode) else k
            mv = m[kk]
            if isinstance(mv, (dict, list)):
                if not isinstance(child, ComposedNode) or isinstance(child, dict) != isinstance(mv, dict):
                    raise Violation(f'C17: at {list(path) + [kk]} node {child!r} does not mirror model {mv!r}{hist}')
                rec(child, mv, path + (kk,))
            else:
                got = child.ayns.native_value if isinstance(child, ConfigNode) else child
                if O.canon(got) != O.canon(mv):
                    raise Violation(f'C17: at {list(path) + [kk]} value {got!r} != model {mv!r}{hist}')
    rec(root, model, ())
    for p, n in root.ayns.nodes_with_paths():
        found = root.ayns.get_node(p, incomplete=None)
        if found is not n:
            raise Violation(f'C17: tree walk reports {n!r} at {p!r} but looking that path up gives {found!r}{hist}')
        if all(isinstance(c, (int, str)) and not (isinstance(c, str) and (c.isdigit() or not c.replace("_", "a").isalnum())) for c in p):
            back = NodePath.get_list_path(str(p))
            kind = lambda c: 'int' if isinstance(c, int) else 'str'     # (a component of a loaded tree is a scalar node, an int / str subclass)
            if list(back) != list(p) or [kind(c) for c in back] != [kind(c) for c in p]:
                raise Violation(f'C17: path {list(p)} -> {str(p)!r} -> {list(back)} does not round-trip{hist}')
    ev = EvalContext().evaluate(copy.deepcopy(root)) if model else None
    if model and O.canon(O.to_builtin(ev)) != O.canon(model):
        raise Violation(f'C17: evaluation gives {O.to_builtin(ev)!r}, model {model!r}{hist}')


def run_case(case):
    from awesomeyaml.nodes.dict import ConfigDict
    model = _unjson(case['init'])
    if case.get('from_yaml'):
        # "starting from any tree": one loaded from yaml text (its mapping keys are scalar nodes, not plain python values)
        from awesomeyaml.builder import Builder
        from .. import tdoc
        b = Builder()
        b.add_source(tdoc.render(tdoc.from_plain(model)), raw_yaml=True)
        root = b.stages[0]
    else:
        root = ConfigDict(copy.deepcopy(model))
    history = [f'init {model!r}' + (' (loaded from yaml)' if case.get('from_yaml') else '')]
    check_invariants(root, model, history)
    touched = {}
    nontrivial = False
    labels = set()
    for op in case['ops']:
        conts = containers(model)
        path = conts[op['tgt'] % len(conts)]
        m = _mget(model, path)
        node = _nget(root, path)
        before = copy.deepcopy(model)
        unspecified = False
        try:
            name, args = apply_model(m, op)
            raised = None
        except Unspecified as u:
            name, args, raised, unspecified = ('rename_child' if isinstance(m, list) and op['lop'] == 'rename_child' else 'set_child'), u.args[0], None, True
        except Raised as r:
            raised = r.args[0]
            name = op['mop'] if isinstance(m, dict) else op['lop']
            # recompute the arguments the node call needs (same addressing as the model)
            args = _args_for_failed(m, op, name)
        kind = 'map' if isinstance(m, dict) else 'list'
        labels.add(f'{kind}.{name}')
        desc = f'{kind} at {list(path)}: {name}{args!r}' + (f'  (model raises {type(raised).__name__})' if raised is not None else '')
        history.append(desc)
        if name in ('insert', 'pop', 'pop_noarg', 'rename_child', 'pop_default') and touched.get(path, 0) >= 1:
            nontrivial = True
        touched[path] = touched.get(path, 0) + 1
        ids_before = [id(x) for x in list.__iter__(node)] if isinstance(node, list) else None
        try:
            apply_node(node, name, copy.deepcopy(args))
            node_raised = None
        except Exception as e:      # noqa
            node_raised = e
        if ids_before is not None and node_raised is None and raised is None and not unspecified and name in ('delitem', 'remove_child', 'pop', 'pop_noarg'):
            # like a python list, the node removes the entry AT the index - not an equal entry somewhere else
            # (equal entries are different nodes: they can carry different flags and metadata)
            idx = -1 if name == 'pop_noarg' else args[0]
            expect_ids = list(ids_before)
            del expect_ids[idx]
            if [id(x) for x in list.__iter__(node)] != expect_ids:
                raise Violation(f'C17: {desc}: the entries left in the list are not the previous entries without the one at index {idx} '
                                f'(an equal entry at another position was removed instead)' + '\nhistory:\n  ' + '\n  '.join(history))
        hist = '\nhistory:\n  ' + '\n  '.join(history)
        if unspecified:
            labels.add('list.rename_child(consistency only)' if name == 'rename_child' or (isinstance(m, list) and op.get('lop') == 'rename_child') else 'list.set_child-out-of-range(consistency only)')
            # adopt whatever content the node has now (read through the child API) and go on checking consistency
            resynced = O.plain(root)
            model.clear()
            model.update(resynced)
            check_invariants(root, model, history)
            continue
        if raised is not None:
            labels.add('model-raises')
            if node_raised is None:
                raise Violation(f'C17: {desc}: the plain python container raises {type(raised).__name__} but the node accepted the operation{hist}')
            model = before
        elif node_raised is not None:
            raise Violation(f'C17: {desc}: the node raised {type(node_raised).__name__}: {node_raised} but the plain python container accepts the operation{hist}')
        check_invariants(root, model, history)
    return Outcome(nontrivial=nontrivial, labels=sorted(labels))


def _args_for_failed(m, op, name):
    if isinstance(m, dict):
        keys = list(m)
        k = keys[op['pick'] % len(keys)] if (op['existing'] and keys) else op['k']
        if name == 'delattr':
            k = op['ak']
        if name == 'rename_child':
            return (k, op['k2'])
        return (k, _unjson(op['v']))
    n = len(m)
    i = op['i']
    if op['existing'] and n:
        i = (op['pick'] % n) - (n if op['i'] < 0 else 0)
    if name == 'remove':
        return (_unjson(op['v']),)
    return (i, _unjson(op['v']))


def sample_repr(case):
    return {'init': case['init'], 'ops': [{k: o[k] for k in ('tgt', 'mop', 'lop', 'k', 'i', 'v')} for o in case['ops'][:6]]}
