"""C08 - !notnew (and command-line overrides) can change but never create paths.

Oracle: path-existence predicate over the config built so far (independent of the node classes) + the C02 fold.
"""
import yaml
from hypothesis import strategies as st

from .. import tdoc, strategies as S, observe as O
from ..core import Violation, Outcome, HarnessError
from .c02 import upd, Invalid

ID = 'C08'
TITLE = '!notnew / command-line overrides never create paths'
RULE = ('base config (1-2 plain stages, identifier keys, nested mappings/lists) and (i) an overriding document derived from it (keep / typo / '
        'add keys, grow / shrink lists, kind changes) with !notnew / !new on arbitrary nodes incl. the root, or (ii) a command-line string '
        'path=value built from an existing or mutated path (typo at any depth, index out of range / negative, extra component) with scalar '
        'or flow-list values; non-trivial = a missing path at depth >=2, or a !new below a !notnew, or a list-index component; '
        'distinct = hash of the case')
BUDGET = {'quick': (4, 600), 'thorough': (16, 10000)}
ASSUMPTIONS = ['command-line values are YAML scalars or flow lists (a mapping value merges key-wise by design)',
               'keys are identifiers (the command-line grammar splits on "." and "[")',
               'override mappings that address one list through a negative and another integer key at once are skipped (they may write one element twice)']

IDENT = st.sampled_from(['a', 'b', 'c', 'lr', 'name', 'x1', 'opt'])
LEAF = S.scalar_node(st.one_of(st.integers(0, 9), st.sampled_from(['s', 'txt', 1.5, True, None, ''])), )


def _base_tree():
    return S.mapping_doc(LEAF, IDENT, max_leaves=10, max_children=3, min_size=1)


@st.composite
def _case(draw):
    stages = [draw(_base_tree())]
    if draw(st.integers(0, 2)) == 0:
        # nested (jagged) lists, so that one path component can carry several indices: grid[1][0], grid[0][2][1]
        rows = [tdoc.sq([tdoc.sc(10 * r + c_) if draw(st.integers(0, 4)) else tdoc.sq([tdoc.sc(7), tdoc.sc(8)], flow=True)
                         for c_ in range(draw(st.integers(1, 3)))], flow=True) for r in range(draw(st.integers(2, 3)))]
        stages[0]['items'] = [kv for kv in stages[0]['items'] if kv[0] != 'grid'] + [['grid', tdoc.sq(rows, flow=draw(st.booleans()))]]
    if draw(st.integers(0, 2)) == 0:
        stages.append(draw(S.mutate(stages[0], S.tree(LEAF, IDENT, max_leaves=3, max_children=2), IDENT)))
        if stages[-1]['t'] != 'map':
            stages.pop()
        else:
            stages[-1]['flow'] = False
    mode = draw(st.sampled_from(['doc', 'doc', 'cmd']))
    case = {'mode': mode, 'stages': stages}
    if mode == 'doc':
        fresh = S.tree(LEAF, IDENT, max_leaves=3, max_children=2)
        ov = draw(S.mutate(stages[0], fresh, IDENT))
        if ov['t'] != 'map':
            ov = draw(_base_tree())
        ov['flow'] = False
        ov = draw(S.decorate_merge(ov, prio=False, delete=False, new=True, notnew=True, density=2))
        if draw(st.booleans()):
            ov['new'] = False
            ov.setdefault('mdstyle', 'short')
        # explicit !merge on mappings: what a mapping does anyway, so neither the fold nor the set of restricted paths changes -
        # but the node now carries an explicit flag of another kind between a !notnew ancestor and the content below it
        for p_, n in tdoc.walk(ov):
            if (n['t'] == 'map' and n['items'] and n.get('del') is None and not any(m['t'] == 'seq' for _, m in tdoc.walk(n))
                    and draw(st.integers(0, 3)) == 0):        # (lists below would inherit "merge" and combine index-wise)
                n['del'] = False
                n.setdefault('mdstyle', draw(st.sampled_from(['short', 'braces'])))
        case['override'] = ov
    else:
        # walk an existing path, then possibly break it
        try:
            plains = [yaml.safe_load(tdoc.render(s)) for s in stages]
            cur = plains[0]
            for p in plains[1:]:
                cur = upd(cur, p)
        except Invalid:
            cur = yaml.safe_load(tdoc.render(stages[0]))
        path = []
        node = cur
        for _ in range(draw(st.integers(1, 4))):
            if isinstance(node, dict) and node:
                ks = list(node)
                k = ks[draw(st.integers(0, len(ks) - 1))]
                if 'grid' in ks and not path and draw(st.booleans()):
                    k = 'grid'
                path.append(k)
                node = node[k]
            elif isinstance(node, list) and node:
                i = draw(st.integers(0, len(node) - 1))
                if draw(st.integers(0, 3)) == 0:
                    i = i - len(node)
                path.append(i)
                node = node[i]
            else:
                break
        brk = draw(st.sampled_from(['none', 'none', 'typo', 'index', 'extra']))
        if brk == 'typo':
            cand = [i for i, c in enumerate(path) if isinstance(c, str)]
            if cand:
                i = cand[draw(st.integers(0, len(cand) - 1))]
                path[i] = path[i] + 'z'
        elif brk == 'index':
            cand = [i for i, c in enumerate(path) if isinstance(c, int)]
            if cand:
                i = cand[draw(st.integers(0, len(cand) - 1))]
                path[i] = draw(st.sampled_from([7, -8, path[i] + 5]))
            else:
                path.append(draw(st.integers(-2, 3)))
        elif brk == 'extra':
            path.append(draw(st.one_of(IDENT, st.integers(-1, 2))))
        if not isinstance(path[0], str):
            path.insert(0, 'a')
        value = draw(st.sampled_from(['5', '-1', '2.5', 'hello', 'null', 'true', "'q s'", '[1, 2]', '[]', '[1, [2, 3], x]', '~', '0x10', '"a=b"']))
        case['path'] = path
        case['value'] = value
        case['break'] = brk
        case['prefix'] = draw(st.integers(0, 5))
        case['vtag'] = draw(st.sampled_from([None, None, None, '!force', '!new']))
    case['fnode'] = draw(st.sampled_from([None] * 9 + ['same-names', 'nested', 'new-name']))
    return case


def strategy():
    return _case()


def exists(plain, path):
    cur = plain
    for c in path:
        if isinstance(cur, dict):
            if c not in cur or any(k == c and type(k) is not type(c) for k in cur):
                if c not in cur:
                    return False
            cur = cur[c]
        elif isinstance(cur, list):
            if not isinstance(c, int) or isinstance(c, bool) or not (-len(cur) <= c < len(cur)):
                return False
            cur = cur[c]
        else:
            return False
    return True


def path_str(path):
    out = ''
    for c in path:
        if isinstance(c, int):
            out += f'[{c}]'
        else:
            out += ('.' if out else '') + str(c)
    return out


def restricted(doc):
    """Paths of nodes whose nearest strict ancestor carrying an explicit flag says !notnew."""
    out = []

    def rec(n, path, allow):
        if path and allow is False:
            out.append(path)
        mine = n.get('new')
        below = allow if mine is None else mine
        if n['t'] == 'map':
            for k, v in n['items']:
                rec(v, path + (k,), below)
        elif n['t'] == 'seq':
            for i, v in enumerate(n['items']):
                rec(v, path + (i,), below)
    rec(doc, (), None)
    return out


def cmd_doc(path, value):
    cur = yaml.safe_load(value)
    for c in reversed(path):
        cur = {c: cur}
    return cur


def _meets_list(plain, path):
    cur = plain
    for c in path:
        if isinstance(cur, list):
            return True
        if not isinstance(cur, dict) or c not in cur:
            return False
        cur = cur[c]
    return False


def cmd_string(path, value):
    s = ''
    for c in path:
        if isinstance(c, int):
            s += f'[{c}]'
        else:
            s += ('.' if s else '') + c
    return s + '=' + value


def all_paths(p, pre=()):
    out = [pre] if pre else []
    if isinstance(p, dict):
        for k, v in p.items():
            out += all_paths(v, pre + (k,))
    elif isinstance(p, list):
        for i, v in enumerate(p):
            out += all_paths(v, pre + (i,))
    return out


def _function_node_override(case):
    """A function node replaced, below !notnew, by a function node with another target: the old arguments go, and the paths of the new
    ones exist iff the old node had arguments of those names (a command-line override 'model=!call:other {depth: 50}')."""
    import vfrec
    from awesomeyaml import Config
    variant = case['fnode']
    base = '---\nfn: !call:vfrec.call_1 {x: 1, y: {d: 2}}\nzz: 0\n'
    new_args, exists = {'same-names': ('{x: 9}', True), 'nested': ('{y: {d: 7}}', True), 'new-name': ('{w: 9}', False)}[variant]
    value = f'!call:vfrec.call_2 {new_args}'
    for how in ('cmdline', 'document'):
        vfrec.reset()
        if how == 'cmdline':
            status, got = O.try_call(lambda: Config.build_from_cmdline(base, f'fn={value}'))
        else:
            status, got = O.try_call(O.build_config, [base, f'--- !notnew\nfn: {value}\n'])
        src = f'\nbase:\n{base}\noverride ({how}): fn={value}'
        if exists:
            want = {'x': 9} if variant == 'same-names' else {'y': {'d': 7}}
            if status != 'ok':
                raise Violation(f'C08: every path the override writes exists, yet the build failed: {type(got).__name__}: {str(got)[:300]}{src}')
            f = O.to_builtin(got).get('fn')
            if not isinstance(f, dict) or f.get('called') != 2 or O.canon_unordered(f.get('kw')) != O.canon_unordered(want) or O.to_builtin(got).get('zz') != 0:
                raise Violation(f'C08: expected fn = call_2(**{want}) and nothing else changed, got {O.to_builtin(got)!r}{src}')
        else:
            if status == 'ok' or type(got).__name__ != 'MergeError':
                raise Violation(f'C08: the override writes fn.w, which does not exist: expected a MergeError, got {got!r}{src}')


def run_case(case):
    if case.get('fnode'):
        _function_node_override(case)
    stages = case['stages']
    texts = [tdoc.render(s) for s in stages]
    plains = [yaml.safe_load(t) for t in texts]
    try:
        sofar = plains[0]
        for p in plains[1:]:
            sofar = upd(sofar, p)
    except Invalid:
        return Outcome(labels=['base-invalid'])
    labels = {'mode=' + case['mode'], f'stages={len(stages)}'}
    nontrivial = False
    if case['mode'] == 'doc':
        ov = case['override']
        t_ov = tdoc.render(ov)
        ov_plain = yaml.safe_load(tdoc.render(ov, erase=True))
        def neg_key_below_list(n, below=False):
            if n['t'] == 'map':
                if below and any(isinstance(k, int) and k < 0 for k, _ in n['items']):
                    return True
                return any(neg_key_below_list(v, below) for _, v in n['items'])
            if n['t'] == 'seq':
                return any(neg_key_below_list(v, True) for v in n['items'])
            return False
        if neg_key_below_list(ov):
            # a mapping inside a list of the override replaces what was there together with the list (it is not merged onto an
            # older list), so a negative key is a new mapping key, not an index: whether "a[0][-1]" then "exists" is not stated
            return Outcome(labels=['skip-negative-key-in-replaced-list'])
        def aliasing_indices(n):
            if n['t'] == 'map':
                ints = [k for k, _ in n['items'] if isinstance(k, int) and not isinstance(k, bool)]
                if any(k < 0 for k in ints) and len(ints) >= 2:
                    return True
                return any(aliasing_indices(v) for _, v in n['items'])
            if n['t'] == 'seq':
                return any(aliasing_indices(v) for v in n['items'])
            return False
        if aliasing_indices(ov):
            # 'l: {1: x, -1: y}' may write the same list element twice in one document; "exists" is stated for paths of the
            # config built so far, not for what an earlier key of the same document has just put there
            return Outcome(labels=['skip-negative-and-other-index-in-one-mapping'])
        W = restricted(ov)
        missing = [p for p in W if not exists(sofar, p)]
        if any(len(p) >= 2 for p in missing):
            nontrivial = True
            labels.add('missing-depth>=2')
        for p, n in tdoc.walk(ov):
            if n.get('del') is False and n.get('new') is None and any(m.get('new') is False for q, m in tdoc.walk(ov) if len(q) < len(p) and list(p[:len(q)]) == list(q)):
                labels.add('explicit-!merge-below-notnew')
            if n.get('new') is True and any(tuple(p[:i]) in [tuple(q) for q, m in tdoc.walk(ov) if m.get('new') is False] for i in range(len(p))):
                nontrivial = True
                labels.add('new-below-notnew')
        try:
            fold = upd(sofar, ov_plain)
            invalid = False
        except Invalid:
            fold, invalid = None, True
        src = '\nsources:\n' + '\n'.join(texts + [t_ov])
        status, got = O.try_call(O.build_config, texts + [t_ov])
        if missing or invalid:
            labels.add('expect-error')
            if status == 'ok':
                raise Violation(f'C08: override writes paths {[path_str(p) for p in missing]} below !notnew that do not exist in the config built so far, '
                                f'but the build succeeded with {O.to_builtin(got)!r}{src}')
            if type(got).__name__ != 'MergeError':
                raise Violation(f'C08: expected MergeError, got {type(got).__name__}: {got}{src}')
            if missing and not invalid:
                msg = str(got)
                if not any(repr(path_str(p)) in msg for p in missing):
                    raise Violation(f'C08: MergeError does not name any of the missing paths {[path_str(p) for p in missing]}: {msg}{src}')
        else:
            labels.add('expect-ok')
            if status != 'ok':
                raise Violation(f'C08: every path written below !notnew exists, yet the build failed: {type(got).__name__}: {got}{src}')
            gotb = O.to_builtin(got)
            if O.canon(gotb) != O.canon(fold):
                raise Violation(f'C08: result {gotb!r} != recursive-update fold {fold!r}{src}')
    else:
        path, value = case['path'], case['value']
        arg = cmd_string(path, value)
        # the default tag typed out ('!notnew a.b=1') is the same override; '!new' in front is the documented way to allow a new path
        prefix = [None, None, '!notnew', '!new', '!force', '!force'][case.get('prefix', 0)]
        # a tag of the value itself ('a.b=!force 5'): the path set is the same; only !new (allowed to create) says something about paths
        vtag = case.get('vtag')
        if vtag:
            arg = cmd_string(path, vtag + ' ' + value)
            labels.add('value-with-a-tag-of-its-own')
        if prefix:
            arg = prefix + ' ' + arg
            labels.add('tag-typed-in-front=' + prefix)
            if vtag:
                nontrivial = True
                labels.add('tag-in-front-and-tagged-value')
        # '!new' in front is the documented way to allow a new path; any other tag in front is the tag of the value (or, for a value with
        # a tag of its own, a flag of the generated document besides the default '!notnew'): a mistyped path stays an error
        creation_allowed = prefix == '!new'
        labels.add('break=' + case['break'])
        if any(isinstance(c, int) for c in path):
            labels.add('index-component')
            nontrivial = True
        ovp = cmd_doc(path, value)
        W = all_paths(ovp)
        missing = [p for p in W if not exists(sofar, p)]
        if any(len(p) >= 2 for p in missing):
            nontrivial = True
            labels.add('missing-depth>=2')
        from awesomeyaml import Config
        status, got = O.try_call(lambda: Config.build_from_cmdline(''.join(texts), arg))     # one multi-document raw yaml source
        src = f'\nsources:\n' + '\n'.join(texts) + f'\ncommand line: {arg!r}'
        if vtag == '!new' and not creation_allowed and missing:
            # the value may be new, the path to it may not: an error iff a component before the last one is missing (not stated for
            # the rest) - covered by the document mode; here only the frame is looked at
            labels.add('new-value-on-a-missing-path')
        elif missing and creation_allowed:
            # creation is allowed: an index beyond a list is still an error; through mappings only, the result is the base plus the path
            labels.add('creation-allowed-for-a-missing-path')
            if not any(isinstance(c, int) for c in path) and not _meets_list(sofar, path):
                nontrivial = True
                if status != 'ok':
                    raise Violation(f'C08: {arg!r} is allowed to create its path (through mappings only), yet the build failed: {type(got).__name__}: {got}{src}')
                expected = upd(sofar, ovp)
                gotb = O.to_builtin(got)
                if O.canon(gotb) != O.canon(expected):
                    raise Violation(f'C08: override {arg!r}: result {gotb!r} != base plus exactly that path {expected!r}{src}')
        elif missing:
            labels.add('expect-error')
            if status == 'ok':
                raise Violation(f'C08: command-line override {arg!r} names a path that does not exist, but the build succeeded with {O.to_builtin(got)!r}{src}')
            if type(got).__name__ != 'MergeError':
                raise Violation(f'C08: expected MergeError for a mistyped override path, got {type(got).__name__}: {got}{src}')
        else:
            labels.add('expect-ok')
            if status != 'ok':
                raise Violation(f'C08: override {arg!r} of an existing path failed: {type(got).__name__}: {got}{src}')
            expected = upd(sofar, ovp)
            gotb = O.to_builtin(got)
            if O.canon(gotb) != O.canon(expected):
                raise Violation(f'C08: override {arg!r}: result {gotb!r} != base with exactly that path replaced {expected!r}{src}')
    return Outcome(nontrivial=nontrivial, labels=sorted(labels))


def sample_repr(case):
    out = {'stages': [tdoc.render(s) for s in case['stages']]}
    if case['mode'] == 'doc':
        out['override'] = tdoc.render(case['override'])
    else:
        out['cmdline'] = cmd_string(case['path'], case['value'])
    return out
