"""C07 - unsafe content never reaches executed code, whatever is merged around it.

One-directional provenance oracle over the recorder log: every generated target name / code carries a unique id and
every literal a unique marker, so the writer (and hence the syntactic taint) of anything seen by executed code is known.
"""
import functools
import os
import shutil
import tempfile

from hypothesis import strategies as st

import vfrec
from .. import tdoc, observe as O
from ..core import Violation, Outcome, HarnessError

ID = 'C07'
TITLE = 'unsafe content never reaches executed code'
RULE = ('1-4 stages, each with a source-level safe flag (some delivered through a top-level !include of a file), writing slots of a fixed '
        'layout: function slots (!call / !bind with literal, !xref and nested-call arguments; argument overrides; target-name overrides by string '
        'or node; lists and !del mappings; {} / !required / scalar placeholders; value-less !del), scalar-dynamic slots (!eval / f-string / !import), '
        'a lazily included !rec file holding a !call, a dynamic node re-used through a yaml alias, data slots (unique '
        'markers, mappings, !xref aliases, and a second hop: a reference to the alias or a mapping / list holding one); !unsafe on arbitrary written nodes, on the enclosing container or on the root (also with an explicit safe=True on the container below it); key order of every '
        'document permuted; non-trivial = >=1 tainted dynamic node or tainted marker reachable from a dynamic node, and >=2 stages touching '
        'that slot; distinct = hash of the case')
BUDGET = {'quick': (4, 600), 'thorough': (16, 10000)}
CRASH_GUARD = True
ASSUMPTIONS = ['only "tainted never runs / is never consumed" is asserted, never "safe must run" (fraction of cases with a clean execution is reported)',
               'a tainted deletion of an argument is not required to block a safe call; values read through ayns.cfg attribute access are not covered',
               'call<->bind kind changes and string-typed dynamic nodes merged onto function nodes are not generated (C13)']

FSLOTS = ['n1', 'n2', 'g1']          # function slots (g1 lives in grp)
SSLOTS = ['e1', 'e2']                # scalar-dynamic slots
DSLOTS = ['d1', 'd2', 'gd']          # data slots (gd lives in grp)
RSLOTS = ['rc1']                     # lazily included files (!rec), each file holds one !call
_TMP = {'dir': None}
XTARGETS = ['d1', 'd2', 'grp.gd', 'al', 'al', 'al2', 'al2', 'e1']      # al: !xref to a data slot; al2: !xref to al, or a mapping holding one
EVALNAMES = ['d1', 'd2', 'al', 'grp.gd', 'al', 'al2']


@st.composite
def _argspec(draw, ctr, depth=0):
    c = draw(st.integers(0, 5 if depth == 0 else 3))
    if c <= 1:
        ctr['m'] += 1
        return ['lit', ctr['m']]
    if c <= 3:
        return ['xref', draw(st.sampled_from(XTARGETS))]
    ctr['id'] += 1
    i = ctr['id']
    return ['call', i, draw(_args(ctr, depth + 1)), False]


@st.composite
def _args(draw, ctr, depth=0):
    names = draw(st.lists(st.sampled_from(['a', 'b', 'c', '_func']), max_size=2, unique=True))     # ('_func': an argument name like any other)
    out = []
    for n in names:
        sp = draw(_argspec(ctr, depth))
        if sp[0] == 'call':
            n = 'f' + n     # nested calls live under their own argument names: a string-typed node (xref) merged onto a function node renames it (C13)
        out.append([n, sp, False])      # [name, spec, unsafe-tag]
    return out


@st.composite
def _stage(draw, idx, ctr, kinds):
    w = {}
    first = idx == 0
    for s in FSLOTS:
        if draw(st.integers(0, 2)) == 0 and not first:
            continue
        c = draw(st.integers(0, 11))
        fk = kinds[s]
        if c <= 3:
            ctr['id'] += 1
            w[s] = [fk, ctr['id'], draw(_args(ctr))]
        elif c <= 5:
            w[s] = ['args', draw(_args(ctr))]
        elif c == 6:
            ctr['id'] += 1
            w[s] = ['name', ctr['id']]
        elif c == 7:
            w[s] = ['placeholder', draw(st.sampled_from(['{}', 'required', 'scalar']))]
        elif c == 8:
            w[s] = ['del']
        elif c == 9:
            # a list merged onto a function node supplies new positional arguments (the node itself is promoted over the list)
            ms = []
            for _ in range(draw(st.integers(0, 2))):
                ctr['m'] += 1
                ms.append(ctr['m'])
            w[s] = ['arglist', ms]
        elif c == 10:
            w[s] = ['delargs', draw(_args(ctr))]
        else:
            ctr['id'] += 1
            w[s] = [fk, ctr['id'], []]
    for s in SSLOTS:
        if draw(st.integers(0, 2)) == 0 and not first:
            continue
        c = draw(st.integers(0, 6))
        ctr['id'] += 1
        if c == 6:
            # code that only *creates* a callable: its free names are resolved when a call target runs it, after the !eval node is done
            w[s] = ['lam', ctr['id'], draw(st.lists(st.sampled_from(EVALNAMES), min_size=1, max_size=2))]
        elif c <= 1:
            w[s] = ['eval', ctr['id'], draw(st.lists(st.sampled_from(EVALNAMES), max_size=2))]
        elif c == 2:
            w[s] = ['fstr', ctr['id'], draw(st.lists(st.sampled_from(EVALNAMES), max_size=1))]
        elif c == 3:
            w[s] = ['import', ctr['id']]
        elif c == 4:
            ctr['m'] += 1
            w[s] = ['scalar', ctr['m']]
        else:
            w[s] = ['del']
    for s in RSLOTS:
        if draw(st.integers(0, 5)) != 0:
            continue
        c = draw(st.integers(0, 4))
        if c <= 2:
            ctr['id'] += 1
            w[s] = ['rec', ctr['id'], draw(st.integers(0, 5)) == 0]     # [.., id of the call inside the file, !unsafe on the list element naming the file]
        elif c == 3:
            ctr['m'] += 1
            w[s] = ['scalar', ctr['m']]
        else:
            w[s] = ['del']
    for s in DSLOTS + ['al', 'al2']:
        if not first and draw(st.integers(0, 1)) == 0:
            continue
        if s == 'al':
            w[s] = ['alias', draw(st.sampled_from(['d1', 'd2', 'grp.gd']))]
        elif s == 'al2':
            # a second hop: a reference to the reference, or a plain mapping / list holding one (intermediates that are evaluated on their own)
            w[s] = [kinds['al2'], 'al']       # one kind per case: a mapping merged onto a list (or the reverse) is another story
        elif draw(st.integers(0, 3)) == 0:
            ctr['m'] += 2
            w[s] = ['map', [['p', ctr['m'] - 1], ['q', ctr['m']]]]
        else:
            ctr['m'] += 1
            w[s] = ['lit', ctr['m']]
    box = [ctr['m'] + 1, ctr['m'] + 2]
    ctr['m'] += 2
    tags = {s: False for s in w}
    return {
        'safe': True,
        'via': draw(st.sampled_from(['direct', 'direct', 'direct', 'include'])),
        'root_unsafe': False,
        'grp_unsafe': False,
        'writes': w, 'tags': tags,
        'alias': draw(st.integers(0, 2)) == 0,
        'alias2': draw(st.integers(0, 2)) == 0,
        # data written below an !unsafe mapping that itself sits in an *untagged* mapping (which the loader fills late), repeated by an
        # alias as an argument of a call: [two fresh markers] or None
        'box': box if draw(st.integers(0, 5)) == 0 else None,
        'grp_safe_md': draw(st.integers(0, 4)) == 0,      # an explicit "safe: True" on the group: it must not lift what is inherited from above
        'order': draw(st.permutations(sorted(k for k in w if k not in ('g1', 'gd')) + ['grp'])),
    }


@st.composite
def _case(draw):
    ctr = {'id': 0, 'm': 1000}
    kinds = {s: draw(st.sampled_from(['call', 'call', 'bind'])) for s in FSLOTS}
    kinds['al2'] = draw(st.sampled_from(['alias', 'wrapmap', 'wraplist']))
    n = draw(st.sampled_from([1, 2, 2, 3, 3, 4]))
    stages = [draw(_stage(i, ctr, kinds)) for i in range(n)]
    # a small number of taint sources per case, so that clean dynamic nodes still execute next to the tainted ones
    for _ in range(draw(st.sampled_from([0, 1, 1, 1, 2, 2, 3]))):
        s_ = stages[draw(st.integers(0, n - 1))]
        what = draw(st.sampled_from(['source', 'source', 'root', 'grp', 'node', 'node', 'node', 'arg', 'arg', 'chain-end', 'chain-end', 'alias-src', 'alias-retarget', 'alias-data', 'alias-data', 'fstr', 'whitelist']))
        if what == 'whitelist':
            # the group says "safe: True" of itself below an !unsafe document root (or in an unsafe source)
            cands = [st_ for st_ in stages if st_['writes'].get('g1', ['x'])[0] in ('call', 'bind')]
            if cands:
                c_ = cands[draw(st.integers(0, len(cands) - 1))]
                c_['grp_safe_md'] = True
                if draw(st.integers(0, 2)) == 0:
                    c_['safe'] = False
                else:
                    c_['root_unsafe'] = True
            continue
        if what == 'alias-data':
            # (unsafety inherited from the group or the document root - a tag on the aliased node itself is part of what the alias repeats)
            cands = [st_ for st_ in stages if st_.get('alias2') and st_['writes'].get('gd', ['x'])[0] in ('lit', 'map')]
            if cands:
                cands[draw(st.integers(0, len(cands) - 1))][draw(st.sampled_from(['grp_unsafe', 'grp_unsafe', 'root_unsafe']))] = True
            continue
        if what == 'alias-retarget':
            # a stage after the one that re-uses grp.g1 through an alias gives grp.g1 another target - from an unsafe source
            firsts = [i for i, st_ in enumerate(stages) if st_.get('alias') and st_['writes'].get('g1', ['x'])[0] in ('call', 'bind')]
            laters = [st_ for i, st_ in enumerate(stages) if firsts and i > firsts[0] and st_['writes'].get('g1', ['x'])[0] in ('call', 'bind', 'name')]
            if laters:
                laters[draw(st.integers(0, len(laters) - 1))]['safe'] = False
            continue
        if what == 'fstr':
            # !unsafe written in front of an (implicit) f-string
            cands = [(st_, k) for st_ in stages for k, w_ in st_['writes'].items() if w_[0] == 'fstr']
            if cands:
                st2, k2 = cands[draw(st.integers(0, len(cands) - 1))]
                st2['tags'][k2] = True
            continue
        if what == 'alias-src':
            # the container of a dynamic node that is re-used through a yaml alias elsewhere in the document
            cands = [st_ for st_ in stages if st_.get('alias') and st_['writes'].get('g1', ['x'])[0] in ('call', 'bind')]
            if cands:
                cands[draw(st.integers(0, len(cands) - 1))]['grp_unsafe'] = True
        elif what == 'chain-end':
            # the data slot at the far end of the reference chain al2 -> al -> data: its last write is tagged !unsafe
            tgt = None
            for st_ in stages:
                if 'al' in st_['writes']:
                    tgt = st_['writes']['al'][1]
            slot = {'grp.gd': 'gd'}.get(tgt, tgt)
            writers = [st_ for st_ in stages if slot in st_['writes']]
            if writers:
                writers[-1]['tags'][slot] = True
        elif what == 'source':
            s_['safe'] = False
        elif what == 'root':
            s_['root_unsafe'] = True
        elif what == 'grp':
            s_['grp_unsafe'] = True
        elif what == 'node':
            ks = sorted(s_['writes'])
            if ks:
                s_['tags'][ks[draw(st.integers(0, len(ks) - 1))]] = True
        else:
            cands = [a for w in s_['writes'].values() if w[0] in ('call', 'bind', 'args', 'delargs') for a in (w[2] if w[0] in ('call', 'bind') else w[1])]
            if cands:
                a = cands[draw(st.integers(0, len(cands) - 1))]
                a[2] = True
    lam = [st_['writes']['e1'] for st_ in stages if st_['writes'].get('e1', ['x'])[0] == 'lam']
    if lam and draw(st.booleans()):
        # the callable made by e1 is handed to a call (which runs it), and one of the entries its code names is written by unsafe content
        holders = [st_['writes'][sl] for st_ in stages for sl in ('n1', 'n2') if st_['writes'].get(sl, ['x'])[0] in ('call', 'bind', 'args')]
        if holders:
            h = holders[draw(st.integers(0, len(holders) - 1))]
            (h[2] if h[0] in ('call', 'bind') else h[1]).append(['fl', ['xref', 'e1'], False])
        names = [nm for nm in lam[-1][2] if nm in ('d1', 'd2', 'grp.gd')]
        if names:
            slot = {'grp.gd': 'gd'}.get(names[0], names[0])
            writers = [st_ for st_ in stages if slot in st_['writes']]
            if writers:
                writers[-1]['tags'][slot] = True
    return {'stages': stages, 'kinds': kinds, 'lowlevel': draw(st.integers(0, 2)) == 0}


def strategy():
    return _case()


# ------------------------------------------------------------------------------------------------- documents

def _arg_node(spec, unsafe):
    if spec[0] == 'lit':
        n = tdoc.sc(spec[1])
    elif spec[0] == 'xref':
        n = tdoc.raw(spec[1], '!xref')
    else:
        n = tdoc.mp([(a, _arg_node(sp, u)) for a, sp, u in spec[2]], flow=True, tag=f'!call:vfrec.call_{spec[1]}')
        unsafe = unsafe or spec[3]
    if unsafe:
        n['unsafe'] = True
        n['mdstyle'] = 'braces'
    return n


def _write_node(w, tagged):
    k = w[0]
    if k in ('call', 'bind'):
        n = tdoc.mp([(a, _arg_node(sp, u)) for a, sp, u in w[2]], flow=True, tag=f'!{k}:vfrec.call_{w[1]}')
    elif k == 'args':
        n = tdoc.mp([(a, _arg_node(sp, u)) for a, sp, u in w[1]], flow=True)
    elif k == 'arglist':
        n = tdoc.sq([tdoc.sc(m) for m in w[1]], flow=True)
    elif k == 'delargs':
        n = tdoc.mp([(a, _arg_node(sp, u)) for a, sp, u in w[1]], flow=True, **{'del': True})
    elif k == 'name':
        n = tdoc.sc(f'vfrec.call_{w[1]}')
    elif k == 'placeholder':
        n = tdoc.mp([], flow=True) if w[1] == '{}' else {'t': 'empty', 'tag': '!required'} if w[1] == 'required' else tdoc.sc(7)
    elif k == 'del':
        return tdoc.empty(**{'del': True})
    elif k == 'rec':
        elem = tdoc.sc(os.path.join(_TMP['dir'] or '/nonexistent', f'rec_{w[1]}.yaml'), q='double')
        if w[2]:
            elem['unsafe'] = True
        n = tdoc.sq([elem], tag='!rec')
        if tagged:
            # !rec has no metadata form: the tag on the node itself cannot be combined with !unsafe
            return n
        return n
    elif k == 'lam':
        n = tdoc.raw('lambda: note(' + ', '.join([str(w[1])] + w[2]) + ')', '!eval', q='dq')
    elif k == 'eval':
        n = tdoc.raw('note(' + ', '.join([str(w[1])] + w[2]) + ')', '!eval', q='dq')
    elif k == 'fstr':
        if tagged:
            # the explicit tag !fstr cannot be combined with !unsafe, the implicit spelling (a plain scalar that looks like an f-string) can
            n = {'t': 'raw', 'text': "f'F{note(" + ', '.join([str(w[1])] + w[2]) + ")}'", 'q': 'verbatim', 'unsafe': True, 'mdstyle': 'short'}
            return n
        n = tdoc.raw('F{note(' + ', '.join([str(w[1])] + w[2]) + ')}', '!fstr', q='dq')
    elif k == 'import':
        n = tdoc.raw(f'vfrec.imp_{w[1]}', '!import')
    elif k == 'scalar' or k == 'lit':
        n = tdoc.sc(w[1])
    elif k == 'map':
        n = tdoc.mp([(a, tdoc.sc(m)) for a, m in w[1]], flow=True)
    elif k == 'alias':
        n = tdoc.raw(w[1], '!xref')
    elif k == 'wrapmap':
        n = tdoc.mp([('v', tdoc.raw(w[1], '!xref'))], flow=True)
    elif k == 'wraplist':
        n = tdoc.sq([tdoc.raw(w[1], '!xref')], flow=True)
    else:
        raise HarnessError(k)
    if tagged:
        if n.get('tag') in ('!fstr', '!import') or (n['t'] == 'empty' and n.get('del')):
            return n        # tags without a metadata form cannot carry !unsafe as well
        n['unsafe'] = True
        n['mdstyle'] = 'braces'
    return n


def stage_doc(stage):
    items = {}
    grp = []
    for s, w in stage['writes'].items():
        n = _write_node(w, stage['tags'].get(s, False))
        if s in ('g1', 'gd'):
            grp.append([s, n])
        else:
            items[s] = n
    # yaml anchor / alias: the dynamic node written at grp.g1 is used again, as the very same node object, as an argument of a
    # function node written later in the same document (its provenance - and taint - is that of grp.g1)
    if stage.get('alias') and 'g1' in stage['writes'] and stage['writes']['g1'][0] in ('call', 'bind'):
        order = list(stage['order'])
        later = [k for k in order[order.index('grp') + 1:] if k in ('n1', 'n2') and k in items and stage['writes'][k][0] in ('call', 'bind', 'args')]
        if later:
            for kv in grp:
                if kv[0] == 'g1':
                    kv[1]['anchor'] = 'g1a'
            tgt = items[later[0]]
            tgt['items'] = list(tgt['items']) + [['fz', {'t': 'alias', 'name': 'g1a'}]]
    # ... and the same for the data written at grp.gd: its content is used again, through an alias, as an argument of a later function node
    # (content written by unsafe content stays so wherever an alias puts it)
    if stage.get('alias2') and 'gd' in stage['writes'] and stage['writes']['gd'][0] in ('lit', 'map'):
        order = list(stage['order'])
        later = [k for k in order[order.index('grp') + 1:] if k in ('n1', 'n2') and k in items and stage['writes'][k][0] in ('call', 'bind', 'args')]
        if later:
            for kv in grp:
                if kv[0] == 'gd':
                    kv[1]['anchor'] = 'd1a'
            tgt = items[later[0]]
            tgt['items'] = list(tgt['items']) + [['dz', {'t': 'alias', 'name': 'd1a'}]]
    out = []
    for k in stage['order']:
        if k == 'grp':
            if grp:
                g = tdoc.mp(grp)
                if stage['grp_unsafe']:
                    g['unsafe'] = True
                elif stage.get('grp_safe_md'):
                    g['md'] = {'safe': True}
                    g['mdstyle'] = 'braces'
                out.append(['grp', g])
        elif k in items:
            out.append([k, items[k]])
    if stage.get('box'):
        takers = [v for k, v in out if k in ('n1', 'n2') and stage['writes'][k][0] in ('call', 'bind', 'args')]
        if takers:
            m1, m2 = stage['box']
            data = tdoc.mp([('p', tdoc.sc(m1)), ('q', tdoc.sq([tdoc.sc(m2)], flow=True))], flow=True, anchor='d3a')
            out.insert(0, ['box', tdoc.mp([('u', tdoc.mp([('v', data)], unsafe=True, mdstyle='short'))])])
            takers[0]['items'] = list(takers[0]['items']) + [['dz3', {'t': 'alias', 'name': 'd3a'}]]
    root = tdoc.mp(out)
    if stage['root_unsafe']:
        root['unsafe'] = True
    return root


# ------------------------------------------------------------------------------------------------- provenance model

def _effective_tag(w, tagged):
    """Whether the !unsafe tag could actually be written on this node (see _write_node)."""
    if not tagged:
        return False
    return w[0] not in ('import', 'del', 'rec')


def provenance(case):
    """-> (taint of id, taint of marker, ids of required-survivors problem)"""
    id_taint, marker_taint = {}, {}
    for st_ in case['stages']:
        base = (not st_['safe']) or st_['root_unsafe']
        for s, w in st_['writes'].items():
            t = base or (s in ('g1', 'gd') and st_['grp_unsafe']) or _effective_tag(w, st_['tags'].get(s, False))

            def args_taint(args, t0):
                for a, sp, u in args:
                    ta = t0 or u
                    if sp[0] == 'lit':
                        marker_taint[sp[1]] = ta
                    elif sp[0] == 'call':
                        tc = ta or sp[3]
                        id_taint[sp[1]] = tc
                        args_taint(sp[2], tc)
            k = w[0]
            if k in ('call', 'bind'):
                id_taint[w[1]] = t
                args_taint(w[2], t)
            elif k in ('args', 'delargs'):
                args_taint(w[1], t)
            elif k == 'arglist':
                for m in w[1]:
                    marker_taint[m] = t
            elif k in ('name', 'eval', 'lam', 'fstr', 'import'):
                id_taint[w[1]] = t
            elif k == 'rec':
                # the call lives in a file read lazily on behalf of this node: tainted if the node or the element naming the file is
                id_taint[w[1]] = t or w[2]
            elif k in ('scalar', 'lit'):
                marker_taint[w[1]] = t
            elif k == 'map':
                for a, m in w[1]:
                    marker_taint[m] = t
        if st_.get('box'):
            for m in st_['box']:
                marker_taint[m] = True
    return id_taint, marker_taint


def _no_e1(args):
    for a in args:
        sp = a[1]
        if sp[0] == 'xref' and sp[1] == 'e1':
            sp[1] = 'd1'
        elif sp[0] == 'call':
            _no_e1(sp[2])


def fix_required(case):
    """A !required placeholder must not be the last write of its slot (it would fail the build for another reason)."""
    # the code of e1 may name grp.gd, which evaluates the whole group: the function node inside the group must not refer back to e1
    e1_deleted = any(st_['writes'].get('e1', ['x'])[0] == 'del' for st_ in case['stages'])      # (a reference to a deleted key dangles)
    for st_ in case['stages']:
        for slot in FSLOTS if e1_deleted else ['g1']:
            w = st_['writes'].get(slot)
            if w is not None and w[0] in ('call', 'bind', 'args', 'delargs'):
                _no_e1(w[2] if w[0] in ('call', 'bind') else w[1])
    for s in FSLOTS:
        last = None
        for st_ in case['stages']:
            if s in st_['writes']:
                last = st_['writes'][s]
        if last is not None and last == ['placeholder', 'required']:
            last[1] = '{}'
    # a list is only written onto an existing function node (onto anything else it would simply be a list, and a later
    # function node merged onto a list is a mapping-onto-list MergeError: C02 territory)
    for s in FSLOTS:
        state = 'none'
        for st_ in case['stages']:
            w = st_['writes'].get(s)
            if w is None:
                continue
            if w[0] == 'arglist' and state != 'fn':
                w[:] = ['args', []]
            if w[0] in ('call', 'bind'):
                state = 'fn'
            elif w[0] == 'delargs' and not w[1]:
                state = 'none'      # ('!del {}' removes the key, a function node included - R44)
            elif w[0] in ('args', 'arglist', 'delargs', 'name'):
                state = 'fn' if state == 'fn' else 'other'
            else:
                state = 'none' if w[0] == 'del' else 'other'
    return case


def markers_in(v, out):
    if isinstance(v, bool):
        return
    if isinstance(v, int) and v >= 1000:
        out.add(v)
    elif isinstance(v, dict):
        for x in v.values():
            markers_in(x, out)
    elif isinstance(v, (list, tuple)):
        for x in v:
            markers_in(x, out)


def unsafe_routes(tree):
    """Second, model-free witness over the merged tree: for every function node vfrec.call_<k>, the first node the implementation itself
    calls unsafe among what its arguments are made of - the argument nodes, every hop of the references they follow and what the
    targets contain.  (The values of such nodes originate from unsafe content whatever safe data they finally point at.)"""
    from awesomeyaml.nodes.function import FunctionNode
    from awesomeyaml.nodes.composed import ComposedNode
    from awesomeyaml.nodes.xref import XRefNode
    out = {}
    per_id = {}

    def visit(n, where, seen):
        if id(n) in seen or not hasattr(n, 'ayns'):
            return None
        seen.add(id(n))
        if not n.ayns.safe:
            return f'{type(n).__name__} at {where} is unsafe'
        if isinstance(n, XRefNode):
            try:
                tgt = tree.ayns.get_node(str(n))
            except Exception:      # noqa: a dangling reference fails the build for another reason
                return None
            return visit(tgt, f'{where} -> {str(n)}', seen)
        if isinstance(n, ComposedNode):
            for name, child in n.ayns.named_children():
                r = visit(child, f'{where}.{name}', seen)
                if r:
                    return r
        return None
    for path, n in tree.ayns.nodes_with_paths(include_self=True):
        if isinstance(n, FunctionNode):
            f = n.ayns.func
            nm = f if isinstance(f, str) else getattr(f, '__name__', '')
            if isinstance(nm, str) and nm.split('.')[-1].startswith('call_'):
                k = int(nm.split('.')[-1][5:])
                seen = {id(n)}
                found = None
                for name, child in n.ayns.named_children():
                    r = visit(child, f'{path}.{name}', seen)
                    if r:
                        found = r
                        break
                per_id.setdefault(k, {})[id(n)] = found
    # a target can stand in several function nodes (a merge that gives an aliased node another target leaves the other place with a
    # node of its own): the log knows the target only, so the witness speaks only when every node with that target has a route
    for k, nodes in per_id.items():
        if all(nodes.values()):
            out[k] = next(iter(nodes.values()))
    return out


def run_case(case):
    from awesomeyaml import Config, EvalContext
    from awesomeyaml.builder import Builder
    from awesomeyaml.errors import UnsafeError
    case = fix_required(case)
    stages = case['stages']
    id_taint, marker_taint = provenance(case)
    tmp = tempfile.mkdtemp(prefix='vf-c07-')
    _TMP['dir'] = tmp
    try:
        texts = []
        for st_ in stages:
            for s_, w_ in st_['writes'].items():
                if w_[0] == 'rec':
                    with open(os.path.join(tmp, f'rec_{w_[1]}.yaml'), 'w') as f:
                        f.write(f'---\ninner: !call:vfrec.call_{w_[1]} {{}}\n')
        b = Builder()
        for i, st_ in enumerate(stages):
            text = tdoc.render(stage_doc(st_))
            if st_['via'] == 'include':
                fn = os.path.join(tmp, f'inc{i}.yaml')
                with open(fn, 'w') as f:
                    f.write(text)
                master = os.path.join(tmp, f'master{i}.yaml')
                with open(master, 'w') as f:
                    f.write(f'--- !include inc{i}.yaml\n')
                texts.append(f'[stage {i} safe={st_["safe"]} via !include from a master file]\n{text}')
                srcs = (master, False)
            else:
                texts.append(f'[stage {i} safe={st_["safe"]}]\n{text}')
                srcs = (text, True)
            try:
                b.add_source(srcs[0], raw_yaml=srcs[1], safe=st_['safe'])
            except Exception as e:     # noqa
                raise HarnessError(f'cannot parse generated stage: {e}\n{text}')
        src = '\nsources:\n' + '\n'.join(texts)
        vfrec.reset()
        tree = None
        routes = {}

        def built():
            nonlocal tree
            tree = b.build()
            routes.update(unsafe_routes(tree))      # (before evaluation: the low-level route evaluates this very tree)
            return tree
        if case.get('lowlevel'):
            # documented low-level route: evaluate the merged tree itself (no deep copy in between)
            status, got = O.try_call(lambda: EvalContext(eval_symbols={'note': vfrec.note}).evaluate(built()))
        else:
            status, got = O.try_call(lambda: Config(built(), eval_ctx=EvalContext(eval_symbols={'note': vfrec.note})))
        log = list(vfrec.LOG)
    finally:
        shutil.rmtree(tmp, ignore_errors=True)
        _TMP['dir'] = None
    labels = {'stages=%d' % len(stages), 'route=' + ('EvalContext.evaluate' if case.get('lowlevel') else 'Config')}
    any_taint = any(id_taint.values()) or any(marker_taint.values())
    if any_taint:
        labels.add('has-taint')
    if any(not s['safe'] for s in stages):
        labels.add('unsafe-source')
    if any(s['via'] == 'include' for s in stages):
        labels.add('via-include')
    if any(w[0] == 'rec' for s in stages for w in s['writes'].values()):
        labels.add('lazy-include(!rec)')
    if any('*g1a' in t for t in texts):
        labels.add('aliased-dynamic-node')
    if any('*d1a' in t for t in texts):
        labels.add('aliased-data')
    if any('*d3a' in t for t in texts):
        labels.add('aliased-data-of-a-nested-unsafe-mapping')
    touched = {}
    for s_ in stages:
        for k in s_['writes']:
            touched[k] = touched.get(k, 0) + 1
    nontrivial = any_taint and any(v >= 2 for v in touched.values()) and len(stages) >= 2

    def check_values(what, values):
        ms = set()
        markers_in(values, ms)
        bad = sorted(m for m in ms if marker_taint.get(m))
        if bad:
            raise Violation(f'C07: values {bad} written by unsafe content were {what}{src}')

    # (a) executed code whose defining writer is tainted, (b) tainted markers consumed
    ran_clean = False
    for e in log:
        kind, ident = e[0], e[1]
        if id_taint.get(ident):
            what = {'call': 'function called', 'note': 'code evaluated', 'import': 'module imported'}[kind]
            raise Violation(f'C07: {what} on behalf of dynamic node #{ident}, which was written by unsafe content{src}')
        ran_clean = True
        if kind == 'call' and routes.get(ident):
            raise Violation(f'C07: call #{ident} ran although what it is given is reached through unsafe content: {routes[ident]}{src}')
        if kind == 'call':
            check_values(f'passed to call #{ident}', [list(e[2]), e[3]])
        elif kind == 'note':
            check_values(f'resolved by evaluated code #{ident}', list(e[2]))
    if status == 'ok':
        labels.add('build-ok')

        def scan(v):
            if isinstance(v, functools.partial):
                nm = getattr(v.func, '__name__', '')
                if nm.startswith('call_'):
                    i = int(nm[5:])
                    if id_taint.get(i):
                        raise Violation(f'C07: !bind node #{i} written by unsafe content was evaluated to a partial{src}')
                    if routes.get(i):
                        raise Violation(f'C07: partial #{i} was made although what it binds is reached through unsafe content: {routes[i]}{src}')
                    check_values(f'bound to partial #{i}', [list(v.args), v.keywords])
            elif isinstance(v, dict):
                for x in v.values():
                    scan(x)
            elif isinstance(v, list):
                for x in v:
                    scan(x)
        scan(got)
    else:
        labels.add('build-fails')
        chain = O.exc_chain(got)
        if not any(isinstance(x, UnsafeError) for x in chain):
            raise Violation(f'C07: the build failed with {type(got).__name__} that does not stem from an UnsafeError: {str(got)[:700]}{src}')
    if ran_clean:
        labels.add('executed-clean')
    # (c) unsafety goes with the node: an unsafe dynamic node of the merged tree put into a new, safe mapping through the node API
    # ("merging can only spread unsafety, never remove it" - adoption by another parent is the same step a merge performs)
    if tree is not None:
        from awesomeyaml.nodes.dict import ConfigDict
        from awesomeyaml.nodes.node import ConfigNode
        dyn = ('CallNode', 'BindNode', 'EvalNode', 'FStrNode', 'ImportNode')
        try:
            cands = [(str(p_), n_) for p_, n_ in tree.ayns.nodes_with_paths() if isinstance(n_, ConfigNode) and type(n_).__name__ in dyn and n_.ayns.safe is False]
        except Exception:     # noqa: a tree the low-level route has half evaluated
            cands = []
        for where, node in cands[:2]:
            vfrec.reset()
            st2, got2 = O.try_call(lambda: EvalContext(eval_symbols={'note': vfrec.note}).evaluate(ConfigDict({'name': 'x', 'adopted': node})))
            labels.add('unsafe-node-adopted-by-a-new-mapping')
            if st2 == 'ok' or not any(isinstance(x, UnsafeError) for x in O.exc_chain(got2)):
                raise Violation(f'C07: the unsafe {type(node).__name__} at {where!r} of the merged tree, placed into a new mapping (ConfigDict({{..., "adopted": node}})), '
                                f'was evaluated: {st2} {got2!r} (log {list(vfrec.LOG)!r}){src}')
    return Outcome(nontrivial=nontrivial, labels=sorted(labels))


def sample_repr(case):
    return [{'safe': s['safe'], 'via': s['via'], 'doc': tdoc.render(stage_doc(s))} for s in case['stages']]
