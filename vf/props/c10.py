"""C10 - every dynamic node is evaluated exactly once, independent of layout; overwritten/deleted nodes never run.

History invariant over the recorder log + identity of results + key-permutation metamorphic relation.
"""
from hypothesis import strategies as st

import vfrec
from .. import tdoc, observe as O
from ..core import Violation, Outcome

ID = 'C10'
TITLE = 'dynamic nodes run exactly once, layout-independent'
RULE = ('config with side-effecting producers (!call:vfrec.call_i, !eval note(i)) at top level, in nested mappings and lists; consumers: several '
        '!xref to one producer (also into containers), yaml aliases placing the producer node itself at further places (top level, inside a list, '
        'inside a mapping), producers used as arguments of other calls, !eval code naming top-level keys; a random '
        'permutation of the key order of every mapping; 0-2 later stages overwriting / deleting / replacing the container of a subset or giving a call '
        'with a !force-pinned dynamic argument another target; optionally a !weak first document with later regular stages merging into a container '
        'and !weak stages replacing whatever is still weak; optionally one EvalContext shared by all builds; '
        'non-trivial = a producer with >=2 consumers of >=2 kinds, or a consumer written before its target, or an overwritten producer; '
        'distinct = hash of the case')
BUDGET = {'quick': (4, 500), 'thorough': (16, 8000)}
CRASH_GUARD = True
ASSUMPTIONS = ['a yaml alias denotes the same node as its anchor (yaml semantics; the loader shares the node object), so it counts as one dynamic node',
               'later stages only replace or delete whole producers / containers (survivors follow from the plain fold)',
               'referenced keys are overwritten, not deleted (a dangling reference is an error by C09)']


@st.composite
def _case(draw):
    nprod = draw(st.integers(1, 4))
    prods = []      # (id, path, kind)
    top = []        # top-level items: [key, spec]
    box_items, lst_items = [], []
    pid = 0
    for i in range(nprod):
        pid += 1
        where = draw(st.sampled_from(['top', 'top', 'box', 'lst']))
        kind = draw(st.sampled_from(['call', 'call', 'eval']))
        if where == 'top':
            key = f'p{pid}'
            top.append([key, ['prod', pid, kind]])
            prods.append([pid, [key], kind])
        elif where == 'box':
            key = f'p{pid}'
            box_items.append([key, ['prod', pid, kind]])
            prods.append([pid, ['box', key], kind])
        else:
            lst_items.append(['prod', pid, kind])
            prods.append([pid, ['lst', len(lst_items) - 1], kind])
    if box_items:
        top.append(['box', ['map', box_items + [['plain', ['lit', draw(st.integers(0, 9))]]]]])
    if lst_items:
        top.append(['lst', ['seq', lst_items + [['lit', 5]]]])
    # consumers
    ncons = draw(st.integers(0, 5))
    for j in range(ncons):
        tgt = prods[draw(st.integers(0, len(prods) - 1))]
        ck = draw(st.sampled_from(['xref', 'xref', 'callarg', 'eval']))
        if ck == 'xref':
            top.append([f'x{j}', ['xref', tgt[1]]])
        elif ck == 'callarg':
            pid += 1
            other = prods[draw(st.integers(0, len(prods) - 1))]
            top.append([f'c{j}', ['ccall', pid, [tgt[1], other[1]]]])
            prods.append([pid, [f'c{j}'], 'ccall'])
        else:
            pid += 1
            top.append([f'e{j}', ['ceval', pid, tgt[1]]])
            prods.append([pid, [f'e{j}'], 'ceval'])
    # yaml aliases: the producer node itself (one node, by yaml's own semantics) sits at further places - a top-level key, inside a list,
    # inside a mapping; whichever place comes first in the text carries the anchor (see order_anchors)
    base_prods = [p for p in prods if p[2] in ('call', 'eval')]
    for j in range(draw(st.sampled_from([0, 0, 1, 2]))):
        tgt = base_prods[draw(st.integers(0, len(base_prods) - 1))]
        form = draw(st.sampled_from(['top', 'seq', 'seq', 'map']))
        if form == 'top':
            top.append([f'y{j}', ['alias', tgt[0]]])
        elif form == 'seq':
            top.append([f'y{j}', ['seq', [['lit', 3], ['alias', tgt[0]]]]])
        else:
            top.append([f'y{j}', ['map', [['v', ['alias', tgt[0]]], ['w', ['lit', 4]]]]])
    # a call holding a !force-pinned dynamic argument; a later stage may give the key a call with another target, which drops
    # the old arguments whatever their priority - the pinned producer then no longer exists and must not run
    for j in range(draw(st.sampled_from([0, 0, 1]))):
        pid += 2
        top.append([f'pc{j}', ['pcall', pid - 1, pid]])
        prods.append([pid - 1, [f'pc{j}'], 'pcall'])
        prods.append([pid, [f'pc{j}', 'p'], 'pinned'])
    weak_base = draw(st.integers(0, 3)) == 0       # the first document is '--- !weak': later stages decide by priority which nodes still exist
    if weak_base and any(spec[0] == 'pcall' for _, spec in top):
        weak_base = False       # (a !force-pinned argument below a !weak root: nested priority tags of different value are not ranked by any statement)
    # yaml merge keys: further mappings take over the entries of the box ('<<: *box'); what they take over is made afresh for every such
    # place - except a producer with an alias of its own, which stays the one node it is everywhere
    if box_items and not weak_base:
        for j in range(draw(st.sampled_from([0, 0, 1, 2]))):
            top.append([f'm{j}', ['mergemap', [['w', ['lit', 4]]]]])
    perm_seed = draw(st.lists(st.integers(0, 1000), min_size=8, max_size=8))
    # later stages: act on top-level keys only
    stages = []
    keys = [k for k, _ in top]
    referenced = set()
    for k, spec in top:
        if spec[0] == 'xref':
            referenced.add(spec[1][0])
        elif spec[0] == 'ccall':
            referenced.update(p[0] for p in spec[2])
        elif spec[0] == 'ceval':
            referenced.add(spec[2][0])
    acted = set()
    box_calls = [kk for kk, v in box_items if v[2] == 'call']
    spec_of = dict((k, spec) for k, spec in top)
    # a producer standing at several places is one node: what a stage merges *into* it at one place (an argument, '!del {}' emptying it,
    # another target) happens to the node - acts of that kind are kept to nodes with one place; replacing a place or its holder is another matter
    shared = set(alias_places({'top': top}))
    for _ in range(draw(st.sampled_from([0, 0, 1, 1, 2, 3] if weak_base else [0, 0, 1, 1, 2]))):
        acts = []
        for k in draw(st.lists(st.sampled_from(keys), max_size=2, unique=True)):
            a = draw(st.sampled_from(['scalar', 'scalar', 'delete', 'list', 'delmap']))
            if weak_base and not k.startswith('pc') and draw(st.booleans()):
                # 'touch': a regular mapping merged into the (weak) box makes it a regular entry; 'weakscalar': a !weak scalar
                # replaces what is still weak (latest among equals) and loses against anything regular
                a = 'touch' if k == 'box' and k not in acted and draw(st.booleans()) else 'weakscalar'
            if k.startswith('pc'):
                a = draw(st.sampled_from(['retarget', 'retarget', 'scalar', 'delete']))
            if k.startswith('m') and box_calls and draw(st.booleans()):
                # one entry taken over through the merge key gets another argument / another target - at this place only
                if k not in acted:
                    entry_pid = next(v[1] for kk, v in box_items if kk == box_calls[0])
                    acts.append([k, draw(st.sampled_from(['setarg', 'retarget_in'])) if entry_pid not in shared else 'setarg'])
                    acted.add(k)
                continue
            if k.startswith('m') and k in acted:
                continue        # (one act per merge-key place keeps the model of its history simple)
            is_call = (spec_of[k][0] == 'prod' and spec_of[k][2] == 'call') or spec_of[k][0] == 'ccall'
            if spec_of[k][0] == 'prod' and spec_of[k][1] in shared:
                is_call = False
            if (is_call or k == 'box' or k.startswith('m')) and k not in referenced and a != 'delete' and draw(st.booleans()):
                acts.append([k, 'delempty'])      # '!del {}': removes the key - also a function node, which it leaves without arguments
                acted.add(k)
                continue
            if k.startswith('y') and spec_of[k][0] in ('seq', 'map') and a in ('list', 'delmap'):
                # the container holding a place of a shared producer is replaced: the producer stays what it is at its other places
                acts.append([k, 'list' if spec_of[k][0] == 'seq' else 'delmap'])
                acted.add(k)
                continue
            if a in ('touch', 'weakscalar'):
                if k in referenced and k in ('box', 'lst'):
                    continue
                acts.append([k, a])
                acted.add(k)
                continue
            acted.add(k)
            if a == 'delete' and k in referenced:
                a = 'scalar'
            if k.startswith('m') and a in ('list', 'delmap'):
                a = 'delmap'
            elif k not in ('box', 'lst') and a in ('list', 'delmap'):
                a = 'scalar'        # a list / mapping merged onto a function node updates its arguments (C13), it does not replace it
            if k == 'lst' and a == 'delmap':
                a = 'list'
            if k == 'box' and a == 'list':
                a = 'delmap'         # (a list here followed by a later mapping would be a mapping-onto-list MergeError: C02 territory)
            if k in referenced and k == 'box':
                continue            # consumers reach into it: any replacement would leave dangling references
            if k in referenced and k == 'lst':
                a = 'list2'
            acts.append([k, a])
        stages.append(acts)
    mkeys = [k for k in keys if k.startswith('m') and k not in acted]
    if mkeys and box_calls and draw(st.integers(0, 2)) != 0:
        # (merge-key places are few among the keys: address one of them on purpose)
        entry_pid = next(v[1] for kk, v in box_items if kk == box_calls[0])
        stages.append([[mkeys[0], draw(st.sampled_from(['setarg', 'retarget_in'])) if entry_pid not in shared else 'setarg']])
        acted.add(mkeys[0])
    if draw(st.integers(0, 9)) == 0:
        # a whole document that resets everything written so far ('--- !del {}'): no producer of the first document exists any more
        stages.insert(draw(st.integers(0, len(stages))), [['*', 'reset']])
    for ck in ('box', 'lst'):
        if weak_base and ck in keys and ck not in referenced and draw(st.booleans()):
            # the history the priority of a container is decided by: weak, then merged with something regular, then a weak replacement
            touch = [ck, 'touch'] if ck == 'box' else [ck, 'touchlist']
            stages = [[touch], [[ck, 'weakscalar']]] + [[a for a in acts if a[0] != ck] for acts in stages[:1]]
            break
    return {'top': top, 'stages': stages, 'perm': perm_seed, 'shared_ctx': draw(st.booleans()), 'weak_base': weak_base}


@st.composite
def _shared_retarget_case(draw):
    # one !call node standing at two places (yaml alias) - the place of the anchor and an argument of another call, an entry of a
    # mapping or an element of a list - and a later document that merges a function node with ANOTHER target onto one of the places
    return {'shared_retarget': {'holder': draw(st.sampled_from(['call', 'map', 'seq'])), 'at': draw(st.sampled_from(['anchor', 'anchor', 'alias'])),
                                'old_args': draw(st.sampled_from([[], [['w', 1]], [['w', 1], ['v', 2]]])),
                                'new_args': draw(st.sampled_from([[], [['a', 5]], [['w', 7]]])),
                                'order': draw(st.sampled_from(['anchor-first', 'holder-first'])),
                                'same_target': draw(st.integers(0, 2)) == 0, 'newer_aliased': draw(st.integers(0, 2)) == 0,
                                'extra_stage': draw(st.booleans())}}


def strategy():
    return st.integers(0, 24).flatmap(lambda i: _shared_retarget_case() if i == 0 else _case())


def _run_shared_retarget(case):
    c = case['shared_retarget']
    old = tdoc.mp([(k, tdoc.sc(v)) for k, v in c['old_args']], flow=True, tag='!call:vfrec.call_1', anchor='x')
    al = {'t': 'alias', 'name': 'x'}
    holder = {'call': tdoc.mp([('z', al)], flow=True, tag='!call:vfrec.call_2'), 'map': tdoc.mp([('z', al)], flow=True), 'seq': tdoc.sq([al], flow=True)}[c['holder']]
    # (the anchor has to come first in the text)
    doc0 = tdoc.mp([('g', old), ('n', holder)])
    # (another target - or the same one: a function node with the same target replaces the arguments)
    nid = 1 if c.get('same_target') else 3
    new = tdoc.mp([(k, tdoc.sc(v)) for k, v in c['new_args']], flow=True, tag=f'!call:vfrec.call_{nid}')
    if c['at'] == 'anchor':
        doc1 = tdoc.mp([('g', new)])
    else:
        doc1 = tdoc.mp([('n', tdoc.mp([('z' if c['holder'] != 'seq' else 0, new)], flow=True))])
    if c.get('newer_aliased'):
        # the newer node stands at two places of its own document as well: it stays one node there
        new['anchor'] = 'y'
        doc1 = tdoc.mp([('t', new)] + [[k, {'t': 'alias', 'name': 'y'}] if k == 'g' else [k, v] for k, v in doc1['items']]) if c['at'] == 'anchor' else doc1
    docs = [doc0, doc1] + ([tdoc.mp([('other', tdoc.sc(1))])] if c['extra_stage'] else [])
    texts = [tdoc.render(d) for d in docs]
    src = '\nsources:\n' + '\n'.join(texts)
    vfrec.reset()
    status, cfg = O.try_call(O.build_config, texts)
    log = [e for e in vfrec.LOG if e[0] == 'call']
    labels = ['shared-node-given-another-target', 'at=' + c['at'], 'holder=' + c['holder']]
    if status != 'ok':
        raise Violation(f'C10: build failed: {type(cfg).__name__}: {cfg}{src}')
    # (with the same target the older and the newer node are two nodes with one target: told apart by the arguments they were written with)
    ids = [(e[1], repr(sorted(dict(e[3]).items()))) if nid == 1 and c['old_args'] != c['new_args'] else e[1] for e in log]
    dup = sorted({i for i in ids if ids.count(i) > (2 if nid == 1 and i == 1 and c['old_args'] == c['new_args'] else 1)}, key=repr)
    if dup:
        raise Violation(f'C10: the call(s) {dup} ran more than once: {[(e[1], e[3]) for e in log]} - one !call node standing at two places is one node, '
                        f'and the node written by the later document is one node{src}')
    written = {1: [dict(c['old_args'])], 3: [dict(c['new_args'])]}
    if nid == 1:
        written = {1: [dict(c['old_args']), dict(c['new_args'])]}
        labels.append('same-target')
    for e in log:
        if e[1] in written and dict(e[3]) not in written[e[1]]:
            raise Violation(f'C10: call {e[1]} ran with the arguments {dict(e[3])!r}, which no document has written for it ({written[e[1]]!r}){src}')
    got = O.to_builtin(cfg)
    g = got['g']
    z = got['n']['z'] if c['holder'] == 'map' else got['n'][0] if c['holder'] == 'seq' else got['n']['kw']['z']
    if c.get('newer_aliased') and c['at'] == 'anchor':
        labels.append('newer-node-aliased-too')
        if O.canon(got.get('t')) != O.canon(g):
            raise Violation(f'C10: the newer node stands at t and g (yaml alias) but the two places evaluate to {got.get("t")!r} and {g!r}{src}')
    for where, v in (('g', g), ('n.z', z)):
        if not (isinstance(v, dict) and v.get('called') in written and v.get('kw') in written[v['called']]):
            raise Violation(f'C10: {where} is {v!r}: neither the call the first document wrote nor the one the later document wrote{src}')
    return Outcome(nontrivial=True, labels=labels)


def pstr(path):
    out = ''
    for c in path:
        out += f'[{c}]' if isinstance(c, int) else ('.' if out else '') + c
    return out


def pyexpr(path):
    out = path[0]
    for c in path[1:]:
        out += f'[{c}]' if isinstance(c, int) else f'.{c}'
    return out


def node_of(spec):
    k = spec[0]
    if k == 'lit':
        return tdoc.sc(spec[1])
    if k == 'prod':
        if spec[2] == 'call':
            n = tdoc.mp([('id', tdoc.sc(spec[1]))], flow=True, tag=f'!call:vfrec.call_{spec[1]}')
        else:
            n = tdoc.raw(f"__import__('vfrec').note({spec[1]})", '!eval', q='dq')
        n['anchor'] = f'n{spec[1]}'
        return n
    if k == 'alias':
        return {'t': 'alias', 'name': f'n{spec[1]}'}
    if k == 'map':
        return tdoc.mp([(kk, node_of(v)) for kk, v in spec[1]])
    if k == 'mergemap':
        return tdoc.mp([('<<', {'t': 'alias', 'name': 'boxa'})] + [(kk, node_of(v)) for kk, v in spec[1]])
    if k == 'seq':
        return tdoc.sq([node_of(v) for v in spec[1]])
    if k == 'xref':
        return tdoc.raw(pstr(spec[1]), '!xref')
    if k == 'ccall':
        return tdoc.mp([('a', tdoc.raw(pstr(spec[2][0]), '!xref')), ('b', tdoc.raw(pstr(spec[2][1]), '!ref'))], flow=True,
                       tag=f'!call:vfrec.call_{spec[1]}')
    if k == 'pcall':
        inner = tdoc.mp([], flow=True, tag=f'!call:vfrec.call_{spec[2]}', prio=1, mdstyle='braces')
        return tdoc.mp([('p', inner), ('q', tdoc.sc(1))], flow=True, tag=f'!call:vfrec.call_{spec[1]}')
    if k == 'ceval':
        e = pyexpr(spec[2])
        return tdoc.raw(f'import vfrec\nvfrec.note({spec[1]}, {e}, {e})', '!eval', q='block')
    raise ValueError(k)


def permute(node, seeds, depth=0):
    out = dict(node)
    if node['t'] == 'map':
        items = [[k, permute(v, seeds, depth + 1)] for k, v in node['items']]
        if not str(node.get('tag', '')).startswith('!call'):
            s = seeds[depth % len(seeds)]
            items = sorted(items, key=lambda kv: hash((str(kv[0]), s)) % 1009)
        out['items'] = items
    elif node['t'] == 'seq':
        out['items'] = [permute(v, seeds, depth + 1) for v in node['items']]
    return out


def order_anchors(doc):
    """An anchor must precede its aliases in the text: the first place (in rendering order) of every shared node carries the
    definition, the others are aliases.  Anchors nobody uses are dropped."""
    defs, used = {}, set()
    for _, n in tdoc.walk(doc):
        if n.get('anchor'):
            defs[n['anchor']] = n
        if n['t'] == 'alias':
            used.add(n['name'])
    seen = set()

    def rec(n):
        name = n.get('anchor') or (n['name'] if n['t'] == 'alias' else None)
        if name is not None:
            if name not in used:
                n = {k: v for k, v in n.items() if k != 'anchor'}
            elif name in seen:
                return {'t': 'alias', 'name': name}
            else:
                seen.add(name)
                n = defs[name]      # (what stands below a definition may hold anchors / aliases of its own)
        out = dict(n)
        if n['t'] == 'map':
            out['items'] = [[k, rec(v)] for k, v in n['items']]
        elif n['t'] == 'seq':
            out['items'] = [rec(v) for v in n['items']]
        return out
    return rec(doc)


def alias_places(case):
    """-> {producer id: [paths of its alias places]}"""
    out = {}
    for k, spec in case['top']:
        if spec[0] == 'alias':
            out.setdefault(spec[1], []).append([k])
        elif k.startswith('y') and spec[0] == 'seq':
            out.setdefault(spec[1][1][1], []).append([k, 1])
        elif k.startswith('y') and spec[0] == 'map':
            out.setdefault(spec[1][0][1][1], []).append([k, 'v'])
    return out


def merge_entry(case):
    """the entry of the box (a call producer) which the acts on merge-key places address"""
    for k, spec in case['top']:
        if k == 'box':
            for kk, v in spec[1]:
                if v[0] == 'prod' and v[2] == 'call':
                    return kk, v[1]
    return None, None


def stage_doc(acts, entry=None):
    if acts == [['*', 'reset']]:
        return tdoc.mp([], flow=True, **{'del': True})
    items = []
    for k, a in acts:
        if a == 'scalar':
            items.append([k, tdoc.sc(77)])
        elif a == 'delete':
            items.append([k, tdoc.empty(**{'del': True})])
        elif a == 'list':
            items.append([k, tdoc.sq([], flow=True)])
        elif a == 'retarget':
            items.append([k, tdoc.mp([('z', tdoc.sc(2))], flow=True, tag=f'!call:vfrec.call_{900 + int(k[2:])}')])
        elif a == 'delempty':
            items.append([k, tdoc.mp([], flow=True, **{'del': True})])
        elif a == 'setarg':
            items.append([k, tdoc.mp([(entry, tdoc.mp([('extra', tdoc.sc(1))], flow=True))], flow=True)])
        elif a == 'retarget_in':
            items.append([k, tdoc.mp([(entry, tdoc.mp([('z', tdoc.sc(2))], flow=True, tag=f'!call:vfrec.call_{950 + int(k[1:])}'))], flow=True)])
        elif a == 'touch':
            items.append([k, tdoc.mp([('touched', tdoc.sc(1))], flow=True)])
        elif a == 'touchlist':
            items.append([k, tdoc.mp([(-1, tdoc.sc(6))], flow=True)])        # a regular mapping merged into the (weak) list: its last element
        elif a == 'weakscalar':
            items.append([k, tdoc.sc(78, prio=-1)])
        elif a == 'list2':
            items.append([k, tdoc.sq([tdoc.sc(1), tdoc.sc(2), tdoc.sc(3), tdoc.sc(4), tdoc.sc(5)], flow=True)])
        else:
            items.append([k, tdoc.mp([('only', tdoc.sc(1))], flow=True, **{'del': True})])
    return tdoc.mp(items)


def survivors(case):
    overwritten = set()
    prio = {k: (-1 if case.get('weak_base') else 0) for k, _ in case['top']}
    for acts in case['stages']:
        for k, a in acts:
            if a == 'reset':
                # (a call holding a !force-pinned argument is kept alive by it: protected entries survive a deleting node)
                overwritten.update(k_ for k_, spec_ in case['top'] if spec_[0] != 'pcall')
                continue
            if a in ('touch', 'touchlist'):
                prio[k] = 0                 # merged with a regular mapping: a regular entry from now on, its content is all still there
            elif a == 'weakscalar':
                if prio[k] <= -1:
                    overwritten.add(k)      # latest among equals
            else:
                overwritten.add(k)
                prio[k] = 0
    out = set()

    def rec(spec, topkey):
        if spec[0] == 'alias':
            if topkey not in overwritten:
                out.add(spec[1])        # the shared node still exists at this place
        elif spec[0] == 'pcall':
            state = 'orig'
            for acts in case['stages']:
                for k, a in acts:
                    if a == 'reset':
                        state = state if state == 'orig' else 'gone'        # the pinned argument keeps the original call alive, nothing protects a later one
                    elif k == topkey and a not in ('touch', 'touchlist', 'weakscalar'):
                        state = 'retargeted' if a == 'retarget' else 'gone'
            if state == 'orig':
                out.update([spec[1], spec[2]])
            elif state == 'retargeted':
                out.add(900 + int(topkey[2:]))
        elif spec[0] in ('prod', 'ccall', 'ceval'):
            if topkey not in overwritten:
                out.add(spec[1])
        elif spec[0] == 'map':
            for _, v in spec[1]:
                rec(v, topkey)
        elif spec[0] == 'seq':
            for v in spec[1]:
                rec(v, topkey)
    for k, spec in case['top']:
        rec(spec, k)
    return out, overwritten


def merge_places(case, overwritten):
    """Model of the merge-key places -> (expected runs of box producers beyond / instead of `survivors`, as a list of (id, kwargs or None);
    ids whose single expected run has other arguments {id: kwargs}; ids that are alive through a merge-key place only)"""
    entry, entry_pid = merge_entry(case)
    aliases = alias_places(case)
    box = next((spec for k, spec in case['top'] if k == 'box'), None)
    runs, kw_of, alive = [], {}, set()
    for k, spec in case['top']:
        if spec[0] != 'mergemap':
            continue
        state, ent, newcall = 'live', 'orig', False
        for acts in case['stages']:
            for k2, a in acts:
                if a == 'reset':
                    state, newcall = 'gone', False
                elif k2 != k:
                    continue
                elif a == 'setarg':
                    if state == 'live':
                        ent = 'extra'
                elif a == 'retarget_in':
                    newcall = True
                    if state == 'live':
                        ent = 'retargeted'
                else:
                    state, newcall = 'gone', False
        if newcall:
            runs.append((950 + int(k[1:]), {'z': 2}))
        if state != 'live':
            continue
        for kk, v in box[1]:
            if v[0] != 'prod':
                continue
            pid, kind = v[1], v[2]
            mine = kk == entry
            if mine and ent == 'retargeted':
                continue        # this place holds the new call now
            if pid in aliases:
                # a producer with an alias of its own is one node everywhere: this is one more place of it (an argument merged into it here shows everywhere)
                alive.add(pid)
                if mine and ent == 'extra':
                    kw_of[pid] = {'id': pid, 'extra': 1}
            else:
                runs.append((pid, ({'id': pid, 'extra': 1} if mine and ent == 'extra' else {'id': pid}) if kind == 'call' else None))
    return runs, kw_of, alive


def _ids(log):
    out = {}
    for e in log:
        out[e[1]] = out.get(e[1], 0) + 1
    return out


def _run(texts, ctx=None):
    import sys
    for m in [m for m in sys.modules if m.startswith('awesomeyaml.eval_node_namespace')]:
        del sys.modules[m]
    vfrec.reset()
    status, got = O.try_call(O.build_config, texts, eval_ctx=ctx)
    return status, got, list(vfrec.LOG)


def run_case(case):
    if 'shared_retarget' in case:
        return _run_shared_retarget(case)
    base = tdoc.mp([(k, node_of(spec)) for k, spec in case['top']])
    if case.get('weak_base'):
        base['prio'] = -1
    entry, _ = merge_entry(case)
    if any(spec[0] == 'mergemap' for _, spec in case['top']):
        for kv in base['items']:
            if kv[0] == 'box':
                kv[1]['anchor'] = 'boxa'
    later = [stage_doc(a, entry) for a in case['stages'] if a]
    S, overwritten = survivors(case)
    mruns, mkw, malive = merge_places(case, overwritten)
    S = S | malive
    expected = {i: 1 for i in S}
    for i, _ in mruns:
        expected[i] = expected.get(i, 0) + 1
    # the arguments the call producers must be run with: as written (id: <n>), plus what a later stage merged into that very node
    call_prods = {}
    def _cp(spec):
        if spec[0] == 'prod' and spec[2] == 'call':
            call_prods[spec[1]] = True
        elif spec[0] in ('map', 'seq'):
            for v in spec[1]:
                _cp(v[1] if spec[0] == 'map' else v)
    for _, spec in case['top']:
        _cp(spec)
    exp_kw = {}
    for i in S:
        if i in call_prods:
            exp_kw.setdefault(i, []).append(mkw.get(i, {'id': i}))
    for i, kw in mruns:
        if kw is not None:
            exp_kw.setdefault(i, []).append(kw)
    labels = {'stages=%d' % (1 + len(later))}
    # classification
    cons = {}
    for k, spec in case['top']:
        if spec[0] == 'xref':
            cons.setdefault(tuple(spec[1]), set()).add('xref')
        elif spec[0] == 'ccall':
            for p in spec[2]:
                cons.setdefault(tuple(p), set()).add('callarg')
        elif spec[0] == 'ceval':
            cons.setdefault(tuple(spec[2]), set()).add('eval')
    nontrivial = any(len(v) >= 2 for v in cons.values()) or bool(overwritten)
    for v in cons.values():
        for c in v:
            labels.add('consumer=' + c)
    if overwritten:
        labels.add('overwritten')
    if case.get('weak_base'):
        labels.add('weak-first-document')
        if any(a == 'weakscalar' for acts in case['stages'] for _, a in acts):
            labels.add('weak-replacement-stage')
            nontrivial = True
    results = []
    ctx = None
    if case.get('shared_ctx'):
        # one user-supplied evaluation context for every build of the case ("during one build" must not depend on earlier builds)
        from awesomeyaml import EvalContext
        ctx = EvalContext()
        labels.add('shared-eval-context')
    if any(spec[0] == 'mergemap' for _, spec in case['top']):
        labels.add('merge-key-place')
        nontrivial = True
    for acts in case['stages']:
        for _, a in acts:
            if a in ('delempty', 'setarg', 'retarget_in'):
                labels.add('act=' + a)
    aliases = alias_places(case)
    if aliases:
        labels.add('yaml-alias-of-a-producer')
        nontrivial = True
    prod_path = {}
    for k, spec in case['top']:
        if spec[0] == 'prod':
            prod_path[spec[1]] = [k]
        elif k in ('box',) and spec[0] == 'map':
            for kk, v in spec[1]:
                if v[0] == 'prod':
                    prod_path[v[1]] = [k, kk]
        elif k == 'lst' and spec[0] == 'seq':
            for i, v in enumerate(spec[1]):
                if v[0] == 'prod':
                    prod_path[v[1]] = [k, i]
    for layout, doc in (('original', order_anchors(base)), ('permuted', order_anchors(permute(base, case['perm'])))):
        texts = [tdoc.render(doc)] + [tdoc.render(d) for d in later]
        src = f'\nlayout: {layout}\nsources:\n' + '\n'.join(texts)
        status, got, log = _run(texts, ctx)
        if status != 'ok':
            raise Violation(f'C10: build failed: {type(got).__name__}: {str(got)[:500]}{src}')
        counts = _ids(log)
        for i, n_ in expected.items():
            if counts.get(i, 0) != n_:
                raise Violation(f'C10: dynamic node {i} ran {counts.get(i, 0)} times (expected exactly {"once" if n_ == 1 else n_}: one run for every node written or '
                                f'taken over through a merge key that still exists); log ids: {counts}{src}')
        extra = set(counts) - set(expected)
        if extra:
            raise Violation(f'C10: dynamic nodes {sorted(extra)} were overwritten or deleted by a later stage but still ran{src}')
        for i, kws in exp_kw.items():
            got_kw = sorted((sorted(e[3].items()) for e in log if e[0] == 'call' and e[1] == i), key=repr)
            if got_kw != sorted((sorted(kw.items()) for kw in kws), key=repr):
                raise Violation(f'C10: call producer {i} exists with the arguments {kws} but was run with {[dict(x) for x in got_kw]} '
                                f'(a later stage which does not address it must not change what it is){src}')
        # identity: every consumer saw the object that is in the final config
        def at(path):
            cur = got
            for c in path:
                cur = cur[c]
            return cur
        for pid_, places in aliases.items():
            live = [p for p in places + [prod_path[pid_]] if p[0] not in overwritten]
            for p in live[1:]:
                if at(p) is not at(live[0]):
                    raise Violation(f'C10: the node #{pid_} sits at {pstr(live[0])} and, through a yaml alias, at {pstr(p)}, but the evaluated '
                                    f'config holds two different objects there{src}')
        for k, spec in case['top']:
            if k in overwritten:
                continue
            if spec[0] == 'xref' and spec[1][0] not in overwritten:
                if at([k]) is not at(spec[1]):
                    raise Violation(f'C10: {k} (!xref {pstr(spec[1])}) is not the same object as the target{src}')
            if spec[0] == 'ccall':
                entry = [e for e in log if e[0] == 'call' and e[1] == spec[1]][0]
                for name, p in zip(('a', 'b'), spec[2]):
                    if entry[3][name] is not at(p):
                        raise Violation(f'C10: call {spec[1]} received for {name!r} an object that is not the one at {pstr(p)} in the config{src}')
            if spec[0] == 'ceval':
                entry = [e for e in log if e[0] == 'note' and e[1] == spec[1]][0]
                for v in entry[2]:
                    if v is not at(spec[2]):
                        raise Violation(f'C10: eval node {spec[1]} saw an object for {pyexpr(spec[2])} that is not the one in the config{src}')
        results.append(O.canon_unordered(O.to_builtin(got)))
    if results[0] != results[1]:
        raise Violation(f'C10: permuting the key order changes the evaluated config\noriginal: {results[0]}\npermuted: {results[1]}')
    return Outcome(nontrivial=nontrivial, labels=sorted(labels))


def sample_repr(case):
    if 'shared_retarget' in case:
        return case['shared_retarget']
    return [tdoc.render(tdoc.mp([(k, node_of(spec)) for k, spec in case['top']]))] + [tdoc.render(stage_doc(a, merge_entry(case)[0])) for a in case['stages'] if a]
