"""C06 - streams are flattened in order: sources, multi-document files and !include agree; lookup, missing files, !path.

Metamorphic oracle (all split plans of one document sequence agree with Config.build(*texts)), layout and
fault-injection checks on temporary directory trees.
"""
import os
import shutil
import tempfile

from hypothesis import strategies as st

from .. import tdoc, strategies as S, observe as O
from ..core import Violation, Outcome, HarnessError

ID = 'C06'
TITLE = 'streams / multi-document sources / !include agree; lookup order; missing files; file-relative !path'
RULE = ('a sequence of 2-5 documents (priority/!del/!merge tags, list-valued keys overridden across boundaries) and a random recursive split '
        'plan (separate sources given as files or as yaml strings, multi-document files, top-level !include [..], several top-level includes, includes nested up to 3 levels) '
        'laid out over sub-directories with names relative to the including file or resolvable only through the working directory, or present '
        'in both with different content; plus key: !include [..]; plus a deleted subset of files; plus !path nodes of every reference '
        'point in files reached in different ways; non-trivial = plan depth >=2 with a list overridden across an include boundary, or a '
        'cwd-vs-sibling conflict, or a missing file below a nested include, or a file-relative !path in an included file; distinct = hash of the case')
BUDGET = {'quick': (4, 250), 'thorough': (16, 4000)}
SHRINK_CAP = {'quick': 300, 'thorough': 3000}
ASSUMPTIONS = ['missing files: the error must name every missing file of (at least) one include node; later include nodes are never reached',
               'all builds of one case run with the same working directory']

DIRS = ['', 'sub', 'sub/deep', 'other']


@st.composite
def _plan(draw, lo, hi, depth, ctr):
    """Entries of one file covering documents lo..hi-1:  ['doc', i] | ['inc', [file, ...]]   file = {'name','dir','entries','where'}"""
    entries = []
    i = lo
    while i < hi:
        j = draw(st.integers(i + 1, hi))
        c = draw(st.integers(0, 3))
        if depth >= 3 or c == 0:
            for k in range(i, j):
                entries.append(['doc', k])
        else:
            # one include entry with 1..3 files covering i..j-1
            cuts = sorted(set(draw(st.lists(st.integers(i + 1, j - 1), max_size=2)))) if j - i > 1 else []
            bounds = [i] + cuts + [j]
            files = []
            for a, b in zip(bounds, bounds[1:]):
                ctr[0] += 1
                files.append({'name': f'f{ctr[0]}.yaml', 'dir': draw(st.sampled_from(DIRS)),
                              'where': draw(st.sampled_from(['rel', 'rel', 'rel', 'cwd', 'both'])),
                              'entries': draw(_plan(a, b, depth + 1, ctr))})
            # now and then one include node lists a file twice (merging is order-sensitive and not idempotent: a, b, a is not a, b)
            # (with another file in between, so that it matters)
            rep = draw(st.integers(0, len(files) - 2)) if len(files) >= 2 and draw(st.integers(0, 2)) == 0 else None
            entries.append(['inc', files, draw(st.booleans()), rep])
        i = j
    return entries


@st.composite
def _case(draw):
    mode = draw(st.sampled_from(['split', 'split', 'split', 'missing', 'path', 'keyinc', 'keyinc2', 'keyinc2']))
    docs = draw(S.tagged_stages(min_stages=2, max_stages=5, new=False, density=5, max_leaves=6, keys=S.MERGE_KEYS_NONEG, neg=False))
    ctr = [0]
    case = {'mode': mode, 'docs': docs, 'abs_master': draw(st.booleans())}
    if mode in ('split', 'missing'):
        case['plan'] = draw(_plan(0, len(docs), 0, ctr))
        case['top'] = draw(st.sampled_from(['file', 'file', 'sources', 'mixed', 'mixed']))
        # 'mixed': every top-level entry is its own source, some given as a file name and some as a yaml string (whose includes
        # can only be found through the working directory - never next to a file given earlier to the same builder)
        case['rawmask'] = [False] + draw(st.lists(st.booleans(), min_size=5, max_size=5))
        if mode == 'missing':
            case['drop'] = draw(st.lists(st.integers(0, 30), min_size=1, max_size=3))
    elif mode == 'keyinc2':
        # an earlier stage already holds content under the key; the included file(s) - one document each - use !extend / !append / plain
        # lists at the same paths: 'key: !include [..]' must equal the files' own merged content placed under the key
        case['key'] = draw(st.sampled_from(['k', 'a']))
        case['dir'] = draw(st.sampled_from(DIRS))
        lists = ['lst', 'other']
        case['pre'] = {nm: [draw(st.integers(0, 9)) for _ in range(draw(st.integers(0, 3)))] for nm in lists if draw(st.booleans())}
        files = []
        for _ in range(draw(st.sampled_from([1, 2, 2]))):
            entries = []
            for nm in lists:
                kind = draw(st.sampled_from(['none', 'plain', 'extend', 'extend', 'append']))
                if kind != 'none':
                    entries.append([nm, kind, [draw(st.integers(10, 19)) for _ in range(draw(st.integers(0, 2)))]])
            entries.append(['s', 'scalar', draw(st.integers(0, 9))])
            # priority tags written inside the included files: they decide between the documents of the include and stay with the
            # content that is placed under the key (unless the place itself carries a priority)
            entries.append(['t', 'scalar', draw(st.integers(0, 9)), draw(st.sampled_from([None, 1, -1]))])
            files.append(entries)
        case['files'] = files
        # the including mapping may carry a priority tag (the content placed under the key takes it, like anything written there),
        # and a later regular stage writes the same paths
        case['wrap'] = draw(st.sampled_from([None, None, -1, 1]))
        case['post'] = draw(st.booleans())
    elif mode == 'keyinc':
        case['key'] = draw(st.sampled_from(['k', 'a', 'inc']))
        case['dir'] = draw(st.sampled_from(DIRS))
        case['before'] = draw(st.booleans())
    else:
        case['paths'] = draw(st.lists(st.tuples(st.sampled_from(['', 'cwd', 'file', 'parent', 'parent(0)', 'parent(1)', 'parent(2)', 'parent(4)', 'abs(/opt/x)']),
                                                 st.lists(st.sampled_from(['a', 'b', '..', 'c.txt']), max_size=2)), min_size=1, max_size=3))
        case['paths'] = [list(p) for p in case['paths']]
        case['chain'] = draw(st.lists(st.sampled_from(DIRS), min_size=0, max_size=3))
    return case


def strategy():
    return _case()


# ---------------------------------------------------------------------------------------------------- layout

class Layout:
    def __init__(self):
        self.root = tempfile.mkdtemp(prefix='vf-c06-')
        self.tree = os.path.join(self.root, 'tree')
        self.cwd = os.path.join(self.root, 'cwd')
        os.makedirs(self.tree)
        os.makedirs(self.cwd)
        self.files = []         # (abs path, include name as written, include node id)
        self.conflicts = 0
        self.nested_files = 0
        self.inc_nodes = []     # list of lists of abs paths (files named by one include node) with their written names

    def write(self, path, text):
        os.makedirs(os.path.dirname(path), exist_ok=True)
        with open(path, 'w') as f:
            f.write(text)

    def close(self):
        shutil.rmtree(self.root, ignore_errors=True)


DECOY = '---\ndecoy_marker: 1\na: [decoy]\n'


def emit_file(lay, texts, entries, here_dir, depth):
    """Render the entries of a file living in here_dir (abs). Returns the stream text."""
    out = []
    for e in entries:
        if e[0] == 'doc':
            out.append(texts[e[1]])
        else:
            names = []
            node_files = []
            for f in e[1]:
                sub = emit_file(lay, texts, f['entries'], None, depth + 1) if False else None
                where = f['where']
                rel_name = os.path.join(f['dir'], f['name']) if f['dir'] else f['name']
                if where == 'cwd':
                    target = os.path.join(lay.cwd, rel_name)
                else:
                    target = os.path.join(here_dir, rel_name)
                body = emit_file(lay, texts, f['entries'], os.path.dirname(target), depth + 1)
                lay.write(target, body)
                decoy = None
                if where == 'both' and os.path.abspath(os.path.join(lay.cwd, rel_name)) != os.path.abspath(target):
                    decoy = os.path.join(lay.cwd, rel_name)
                    lay.write(decoy, DECOY)       # must lose against the file next to the includer
                    lay.conflicts += 1
                if depth >= 1:
                    lay.nested_files += 1
                names.append(rel_name)
                node_files.append((target, rel_name, decoy))
            if len(e) > 3 and e[3] is not None:
                names.append(names[e[3]])           # the same file once more, at the end of the list
            lay.inc_nodes.append(node_files)
            if len(names) == 1 and e[2]:
                out.append(f'--- !include {names[0]}\n')
            else:
                out.append('--- !include [' + ', '.join(names) + ']\n')
    return ''.join(out)


def flatten(entries):
    """Indices of the documents in the order in which the plan delivers them (a file listed twice delivers its documents twice)."""
    out = []
    for e in entries:
        if e[0] == 'doc':
            out.append(e[1])
        else:
            for f in e[1]:
                out += flatten(f['entries'])
            if len(e) > 3 and e[3] is not None:
                out += flatten(e[1][e[3]]['entries'])
    return out


def plan_depth(entries):
    d = 0
    for e in entries:
        if e[0] == 'inc':
            d = max(d, 1 + max(plan_depth(f['entries']) for f in e[1]))
    return d


def _build_in(cwd, fn):
    old = os.getcwd()
    os.chdir(cwd)
    try:
        return O.try_call(fn)
    finally:
        os.chdir(old)


def run_case(case):
    from awesomeyaml import Config
    docs = case['docs']
    texts = [tdoc.render(d) for d in docs]
    mode = case['mode']
    labels = {'mode=' + mode, 'docs=%d' % len(docs)}
    lay = Layout()
    try:
        ref_status, ref = _build_in(lay.cwd, lambda: Config.build(*texts, raw_yaml=True))
        ref_val = O.to_builtin(ref) if ref_status == 'ok' else type(ref).__name__
        src = '\ndocuments:\n' + '\n'.join(texts)
        list_override = sum(1 for d in docs for _, n in tdoc.walk(d) if n['t'] == 'seq') >= 2

        def same_as_ref(status, got, what, extra=''):
            if ref_status == 'ok':
                if status != 'ok':
                    raise Violation(f'C06: {what}: build failed with {type(got).__name__}: {str(got)[:400]} but separate raw sources give {ref_val!r}{src}{extra}')
                if O.canon(O.to_builtin(got)) != O.canon(ref_val):
                    raise Violation(f'C06: {what}: {O.to_builtin(got)!r} != separate raw sources {ref_val!r}{src}{extra}')
            else:
                if status == 'ok':
                    raise Violation(f'C06: {what}: builds to {O.to_builtin(got)!r} but separate raw sources fail with {ref_val}{src}{extra}')
                if type(got).__name__ != ref_val:
                    raise Violation(f'C06: {what}: fails with {type(got).__name__}, separate raw sources with {ref_val}{src}{extra}')

        if mode in ('split', 'missing'):
            plan = case['plan']
            seq = flatten(plan)
            if seq != list(range(len(texts))):
                # some file is included twice: the reference is the sequence of documents as delivered
                labels.add('file-listed-twice-in-one-include')
                ref_status, ref = _build_in(lay.cwd, lambda: Config.build(*[texts[i] for i in seq], raw_yaml=True))
                ref_val = O.to_builtin(ref) if ref_status == 'ok' else type(ref).__name__
                src = '\ndocuments (as delivered: %s):\n' % seq + '\n'.join(texts)
            if case['top'] in ('sources', 'mixed') and all(e[0] == 'doc' for e in plan):
                case = dict(case, top='file')
            raw_flags = False
            master_dir = lay.tree
            if case['top'] == 'file':
                body = emit_file(lay, texts, plan, master_dir, 0)
                master = os.path.join(master_dir, 'master.yaml')
                lay.write(master, body)
                sources = [master if case['abs_master'] else os.path.relpath(master, lay.cwd)]
                layout_txt = f'\nmaster file:\n{body}'
            else:
                # every top-level entry is its own source (file, or in 'mixed' also a yaml string)
                sources = []
                raw_flags = []
                layout_txt = '\nsources:'
                for n, e in enumerate(plan):
                    as_string = case['top'] == 'mixed' and case.get('rawmask', [False] * 6)[n % 6]
                    if as_string:
                        before = len(lay.inc_nodes)
                        body = emit_file(lay, texts, [e], lay.cwd, 0)
                        sources.append(body)
                        raw_flags.append(True)
                        layout_txt += f'\n[yaml string]\n{body}'
                        if e[0] == 'inc':
                            # a file of the same name next to the sources given as files must not be picked up
                            for target, rel_name, _ in lay.inc_nodes[-1]:
                                decoy = os.path.join(master_dir, rel_name)
                                if not os.path.exists(decoy):
                                    lay.write(decoy, DECOY)
                                    lay.conflicts += 1
                            labels.add('string-source-with-include-after-file-source' if any(not r for r in raw_flags[:-1]) else 'string-source-with-include')
                        continue
                    body = emit_file(lay, texts, [e], master_dir, 0)
                    p = os.path.join(master_dir, f'src{n}.yaml')
                    lay.write(p, body)
                    sources.append(p if case['abs_master'] else os.path.relpath(p, lay.cwd))
                    raw_flags.append(False)
                    layout_txt += f'\n[{sources[-1]}]\n{body}'
            depth = plan_depth(plan)
            labels.add('plan-depth=%d' % depth)
            if lay.conflicts:
                labels.add('cwd-vs-sibling-conflict')
            nontrivial = (depth >= 2 and list_override) or lay.conflicts > 0
            if mode == 'split':
                status, got = _build_in(lay.cwd, lambda: Config.build(*sources, raw_yaml=raw_flags))
                same_as_ref(status, got, f'split plan (top={case["top"]}, depth {depth})', layout_txt)
                if status == 'ok' and 'decoy_marker' in got:
                    raise Violation(f'C06: a file from the working directory was used although the including file has a sibling of that name{src}{layout_txt}')
                # a multi-document single source for comparison
                one = os.path.join(lay.tree, 'all_in_one.yaml')
                lay.write(one, ''.join(texts[i] for i in seq))
                status, got = _build_in(lay.cwd, lambda: Config.build(one, raw_yaml=False))
                same_as_ref(status, got, 'one multi-document file')
            else:
                allf = [f for node in lay.inc_nodes for f in node]
                if not allf:
                    return Outcome(labels=['missing-no-includes'])
                chosen = [allf[i % len(allf)] for i in case['drop']]
                drop = sorted(set(f[0] for f in chosen))
                for f in chosen:
                    # "found nowhere": neither next to the including file nor in the working directory
                    for p in (f[0], f[2]):
                        if p and os.path.exists(p):
                            os.unlink(p)
                status, got = _build_in(lay.cwd, lambda: Config.build(*sources, raw_yaml=raw_flags))
                if status == 'ok':
                    raise Violation(f'C06: files {drop} are missing but the build succeeded: {O.to_builtin(got)!r}{src}{layout_txt}')
                if type(got).__name__ != 'PreprocessError':
                    raise Violation(f'C06: missing include files must be a PreprocessError, got {type(got).__name__}: {str(got)[:400]}{src}{layout_txt}')
                msg = str(got)
                ok = False
                for node in lay.inc_nodes:
                    miss = [name for p, name, _ in node if p in drop]
                    if miss and all(repr(name) in msg for name in miss):
                        ok = True
                if not ok:
                    raise Violation(f'C06: PreprocessError does not name the missing files of any include node (missing: {drop}): {msg[:600]}{src}{layout_txt}')
                if any(p in drop for node in lay.inc_nodes[1:] for p, _, _ in node) and lay.nested_files:
                    nontrivial = True
                    labels.add('missing-below-nested')
        elif mode == 'keyinc2':
            key, d = case['key'], case['dir']

            def file_doc(entries):
                items = []
                for nm, kind, val, *pr in entries:
                    if kind == 'scalar':
                        items.append((nm, tdoc.sc(val, **({'prio': pr[0], 'mdstyle': 'short'} if pr and pr[0] else {}))))
                    else:
                        n = tdoc.sq([tdoc.sc(v) for v in val], flow=True)
                        if kind in ('extend', 'append'):
                            n['tag'] = '!' + kind
                        items.append((nm, n))
                return tdoc.render(tdoc.mp(items))
            ftexts = [file_doc(e) for e in case['files']]
            names = []
            for i, t in enumerate(ftexts):
                rel = os.path.join(d, f'q{i}.yaml') if d else f'q{i}.yaml'
                lay.write(os.path.join(lay.tree, rel), t)
                names.append(rel)
            wrap, post = case.get('wrap'), case.get('post')
            pre_text = tdoc.render(tdoc.from_plain({'w': {key: case['pre']}, 'zz': 1} if wrap else {key: case['pre'], 'zz': 1}))
            inc = names[0] if len(names) == 1 and len(case['files'][0]) % 2 else '[' + ', '.join(names) + ']'
            wtag = {1: '!force', -1: '!weak'}.get(wrap)
            body = f'---\nw: {wtag}\n  {key}: !include {inc}\n' if wrap else f'---\n{key}: !include {inc}\n'
            master = os.path.join(lay.tree, 'master.yaml')
            lay.write(master, body)
            post_texts = [tdoc.render(tdoc.from_plain({'w': {key: {'s': 99, 't': 98, 'lst': [99]}}} if wrap else {key: {'s': 99, 't': 98, 'lst': [99]}}))] if post else []
            def merged_files():
                from awesomeyaml.builder import Builder
                b_ = Builder()
                for t_ in ftexts:
                    b_.add_source(t_, raw_yaml=True)
                return b_.build()
            inner_st, inner = _build_in(lay.cwd, lambda: Config.build(*ftexts, raw_yaml=True))
            tree_st, inner_tree = _build_in(lay.cwd, merged_files)
            layout_txt = f'\nearlier stage:\n{pre_text}\nmaster file:\n{body}\nincluded files:\n' + '\n'.join(ftexts) + ('\nlater stage:\n' + post_texts[0] if post else '')
            status, got = _build_in(lay.cwd, lambda: Config.build(pre_text, master, *post_texts, raw_yaml=[True, False] + [True] * len(post_texts)))
            if wrap:
                labels.add('include-below-a-priority-tag')
            if inner_st == 'ok':
                # "the merged content of the files": the merged node tree, written out by the library's own dump (C18), indented under the key
                import awesomeyaml.yaml as ayyaml
                dumped = ayyaml.dump(inner_tree).rstrip('\n').split('\n')
                head = ''
                if dumped and dumped[0].startswith('!'):
                    head, dumped = ' ' + dumped[0], dumped[1:]
                if wrap:
                    placed = f'---\nw: {wtag}\n  {key}:{head}\n' + '\n'.join('    ' + ln for ln in dumped) + '\n'
                else:
                    placed = f'---\n{key}:{head}\n' + '\n'.join('  ' + ln for ln in dumped) + '\n'
                want_st, want = _build_in(lay.cwd, lambda: Config.build(pre_text, placed, *post_texts, raw_yaml=True))
                if want_st == 'ok':
                    if status != 'ok' or O.canon(O.to_builtin(got)) != O.canon(O.to_builtin(want)):
                        raise Violation(f'C06: {key}: !include .. gives {got!r}; placing the merged content of the files under the key gives '
                                        f'{O.to_builtin(want)!r}{layout_txt}\ncontent written out:\n{placed}')
            elif status == 'ok':
                raise Violation(f'C06: the included files do not build on their own ({type(inner).__name__}) but the including document does: {got!r}{layout_txt}')
            labels.add('files=%d' % len(ftexts))
            nontrivial = any(en[1] in ('extend', 'append') for e in case['files'] for en in e) and bool(case['pre'])
        elif mode == 'keyinc':
            key, d = case['key'], case['dir']
            names = []
            for i, t in enumerate(texts):
                rel = os.path.join(d, f'k{i}.yaml') if d else f'k{i}.yaml'
                lay.write(os.path.join(lay.tree, rel), t)
                names.append(rel)
            extra = '---\nzz_before: [1, 2]\n' if case['before'] else ''
            master = os.path.join(lay.tree, 'master.yaml')
            body = extra + f'---\n{key}: !include [' + ', '.join(names) + ']\n'
            lay.write(master, body)
            status, got = _build_in(lay.cwd, lambda: Config.build(master if case['abs_master'] else os.path.relpath(master, lay.cwd), raw_yaml=False))
            layout_txt = f'\nmaster file:\n{body}'
            if ref_status == 'ok':
                exp = ({'zz_before': [1, 2]} if case['before'] else {})
                exp[key] = ref_val
                if status != 'ok' or O.canon(O.to_builtin(got)) != O.canon(exp):
                    raise Violation(f'C06: {key}: !include [..] gives {got!r}, expected the merged content of the files under the key: {exp!r}{src}{layout_txt}')
            elif status == 'ok':
                raise Violation(f'C06: {key}: !include [..] builds although the files do not merge ({ref_val}){src}{layout_txt}')
            nontrivial = list_override
        else:
            # !path nodes written in a file reached through a chain of includes
            chain = case['chain']
            here = lay.tree
            items = []
            for n, (ref_point, comps) in enumerate(case['paths']):
                tag = '!path' + (':' + ref_point if ref_point else '')
                items.append((f'p{n}', tdoc.sq([tdoc.sc(c) for c in comps], flow=True, tag=tag)))
            leaf_doc = tdoc.render(tdoc.mp(items))
            # build the chain of files: master -> ... -> leaf
            names = ['master.yaml'] + [f'lvl{i}.yaml' for i in range(len(chain))]
            dirs = [lay.tree]
            for d in chain:
                dirs.append(os.path.join(dirs[-1], d) if d else dirs[-1])
            for i in range(len(names)):
                if i + 1 < len(names):
                    rel = os.path.join(chain[i], names[i + 1]) if chain[i] else names[i + 1]
                    body = f'--- !include {rel}\n'
                else:
                    body = leaf_doc
                lay.write(os.path.join(dirs[i], names[i]), body)
            leaf_file = os.path.join(dirs[-1], names[-1])
            master = os.path.join(lay.tree, 'master.yaml')
            msrc = master if case['abs_master'] else os.path.relpath(master, lay.cwd)
            old = os.getcwd()
            os.chdir(lay.cwd)
            try:
                status, got = O.try_call(lambda: Config.build(msrc, raw_yaml=False))
                if status != 'ok':
                    raise Violation(f'C06: !path document reached through {len(chain)} includes failed to build: {type(got).__name__}: {str(got)[:400]}\n{leaf_doc}')
                for n, (ref_point, comps) in enumerate(case['paths']):
                    have = os.path.abspath(str(got[f'p{n}']))
                    leaf_abs = os.path.abspath(leaf_file)
                    if ref_point == '':
                        base = os.getcwd()
                    elif ref_point == 'cwd':
                        base = os.getcwd()
                    elif ref_point == 'file':
                        base = leaf_abs
                    elif ref_point.startswith('parent'):
                        k = int(ref_point[7:-1]) if '(' in ref_point else 0
                        base = leaf_abs
                        for _ in range(k + 1):
                            base = os.path.dirname(base)
                    else:
                        base = ref_point[4:-1]
                    want = os.path.normpath(os.path.join(base, *comps))
                    if have != want:
                        raise Violation(f'C06: !path:{ref_point} {comps} written in {leaf_abs} (reached through {len(chain)} includes, master given '
                                        f'{"absolute" if case["abs_master"] else "relative"}) evaluates to {have}, expected {want}')
                    labels.add('ref=' + (ref_point.split('(')[0] or 'none'))
            finally:
                os.chdir(old)
            nontrivial = len(chain) >= 1 and any(r.startswith(('file', 'parent')) for r, _ in case['paths'])
        return Outcome(nontrivial=nontrivial, labels=sorted(labels))
    finally:
        lay.close()


def sample_repr(case):
    out = {'mode': case['mode'], 'docs': [tdoc.render(d) for d in case['docs']]}
    for k in ('plan', 'top', 'paths', 'chain', 'key', 'files', 'pre'):
        if k in case:
            out[k] = case[k]
    return out
