"""C02 - merging plain documents is a right-biased recursive mapping update.

Oracle: left fold of a 15-line recursive update over yaml.safe_load results (independent of the node classes).
"""
import yaml
from hypothesis import strategies as st

from .. import tdoc, strategies as S, observe as O
from ..core import Violation, Outcome

ID = 'C02'
TITLE = 'plain merge == right-biased recursive update'
RULE = ('stage sequences of 1-5 tag-free mapping documents over a small key alphabet (str incl. underscore, int incl. negative), '
        'later stages derived from earlier ones by keep/drop/replace/kind-change/mapping-onto-list; in a quarter of the cases a container of one document is '
        'used again through a yaml anchor / alias (plain yaml, no tag) and later stages write below either place; non-trivial = >=2 stages '
        'that share a path of depth >=2, or a kind change at a shared path, or a mapping merged onto a list; distinct = hash of the rendered texts')
BUDGET = {'quick': (4, 700), 'thorough': (16, 12000)}
ASSUMPTIONS = ['PyYAML SafeLoader defines the plain content of a tag-free document',
               'the reference fold is the rule stated by the property (recursive update, mapping-onto-list addresses existing indices)']


class Invalid(Exception):
    pass


def upd(a, b):
    if isinstance(a, dict) and isinstance(b, dict):
        out = dict(a)
        for k, v in b.items():
            out[k] = upd(a[k], v) if k in a else v
        return out
    if isinstance(a, list) and isinstance(b, dict):
        out = list(a)
        for k in b:
            if not isinstance(k, int) or isinstance(k, bool) or not (-len(a) <= k < len(a)):
                raise Invalid(k)
        for k, v in b.items():
            out[k] = upd(out[k], v)
        return out
    return b


def fold(plains):
    acc = plains[0]
    for p in plains[1:]:
        acc = upd(acc, p)
    return acc


@st.composite
def _case(draw):
    docs = draw(S.stage_sequence(S.scalar_or_timestamp(S.SIMPLE_SCALARS), S.MERGE_KEYS, min_stages=1, max_stages=5))
    # yaml anchors / aliases (plain yaml, no tags): a container of some document is used again under further keys of that document;
    # the other stages - generated before - write into paths of the anchored container, and sometimes into the alias place
    if draw(st.integers(0, 3)) == 0:
        di = draw(st.integers(0, len(docs) - 1))
        d = docs[di]
        cands = [n for p_, n in tdoc.walk(d) if p_ and n['t'] in ('map', 'seq') and n['items']]
        if cands:
            tgt = cands[draw(st.integers(0, len(cands) - 1))]
            tgt['anchor'] = 'n0'
            al = {'t': 'alias', 'name': 'n0'}
            shape = draw(st.integers(0, 2))
            val = al if shape == 0 else tdoc.sq([dict(al), dict(al)], flow=draw(st.booleans())) if shape == 1 else tdoc.mp([('k', dict(al))], flow=draw(st.booleans()))
            d['items'] = [kv for kv in d['items'] if kv[0] != 'zal'] + [['zal', val]]
            if di + 1 < len(docs) and draw(st.booleans()):
                # a later stage writes into the alias place
                sub = draw(S.mutate(tgt, S.scalar_or_timestamp(S.SIMPLE_SCALARS), S.MERGE_KEYS))
                sub = {k: v for k, v in sub.items() if k != 'anchor'}
                place = sub if shape == 0 else tdoc.mp([(draw(st.integers(0, 1)), sub)]) if shape == 1 else tdoc.mp([('k', sub)])
                later = docs[draw(st.integers(di + 1, len(docs) - 1))]
                later['items'] = [kv for kv in later['items'] if kv[0] != 'zal'] + [['zal', place]]
    return {'docs': docs}


def strategy():
    return _case()


def _paths(p, pre=()):
    out = {pre: type(p).__name__ if isinstance(p, (dict, list)) else 'scalar'}
    if isinstance(p, dict):
        for k, v in p.items():
            out.update(_paths(v, pre + (k,)))
    elif isinstance(p, list):
        for i, v in enumerate(p):
            out.update(_paths(v, pre + (i,)))
    return out


def classify(plains):
    labels = [f'stages={len(plains)}']
    nontrivial = False
    seen = {}
    for p in plains:
        cur = _paths(p)
        for path, kind in cur.items():
            if path in seen:
                if len(path) >= 2:
                    nontrivial = True
                    labels.append('shared-depth>=2')
                if seen[path] != kind and path:
                    nontrivial = True
                    labels.append(f'kind-change:{seen[path]}->{kind}')
                if seen[path] == 'list' and kind == 'dict':
                    labels.append('map-onto-list')
        seen.update(cur)
    return nontrivial, sorted(set(labels))


def run_case(case):
    docs = case['docs']
    texts = [tdoc.render(d) for d in docs]
    plains = [yaml.safe_load(t) for t in texts]
    for d, p in zip(docs, plains):
        if O.canon(tdoc.plain_resolved(d)) != O.canon(p):
            from ..core import HarnessError
            raise HarnessError(f'renderer: {tdoc.plain_resolved(d)!r} rendered as {p!r}')
    try:
        expected = ('ok', fold(plains))
    except Invalid as e:
        expected = ('MergeError', None)
    status, got = O.try_call(O.build_config, texts)
    nontrivial, labels = classify(plains)
    labels.append('expect-' + expected[0])
    if any(n['t'] == 'alias' for d in docs for _, n in tdoc.walk(d)):
        labels.append('yaml-alias-of-a-container')
    if expected[0] == 'ok':
        if status != 'ok':
            raise Violation(f'C02: build failed with {type(got).__name__}: {got} but the recursive-update fold gives {expected[1]!r}\nsources:\n' + '\n'.join(texts))
        gotb = O.to_builtin(got)
        if O.canon(gotb) != O.canon(expected[1]):
            raise Violation(f'C02: merged result {gotb!r} != recursive-update fold {expected[1]!r}\nsources:\n' + '\n'.join(texts))
    else:
        if status == 'ok':
            raise Violation(f'C02: mapping merged onto a list with an invalid index was accepted: {O.to_builtin(got)!r}\nsources:\n' + '\n'.join(texts))
        if type(got).__name__ != 'MergeError':
            raise Violation(f'C02: expected MergeError for an invalid list index, got {type(got).__name__}: {got}\nsources:\n' + '\n'.join(texts))
    return Outcome(nontrivial=nontrivial, labels=labels)


def sample_repr(case):
    return [tdoc.render(d) for d in case['docs']]
