"""Deterministic step budget: counts python 'line' events inside the awesomeyaml package via sys.settrace and
raises StepBudgetExceeded (a BaseException, so that no `except Exception` of the code under test swallows it)."""
import os
import sys
import threading


class StepBudgetExceeded(BaseException):
    pass


class StepBudget:
    def __init__(self, limit):
        self.limit = limit
        self.steps = 0
        import awesomeyaml.nodes.node as n
        self.root = os.path.dirname(os.path.dirname(os.path.abspath(n.__file__))) + os.sep

    def _local(self, frame, event, arg):
        if event == 'line':
            self.steps += 1
            if self.steps > self.limit:
                raise StepBudgetExceeded(self.steps)
        return self._local

    def _global(self, frame, event, arg):
        if frame.f_code.co_filename.startswith(self.root):
            return self._local
        return None

    def __enter__(self):
        self._old = sys.gettrace()
        sys.settrace(self._global)
        return self

    def __exit__(self, *a):
        sys.settrace(self._old)
        return False
