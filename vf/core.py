"""Core types shared by the runner and the property modules.

A property module (vf/props/cXX.py) exposes

    ID            'C02'
    TITLE         one line
    RULE          text of the non-trivial rule (copied into evidence)
    BUDGET        {'quick': (shards, examples_per_shard), 'thorough': (shards, examples_per_shard)}
    strategy()    hypothesis strategy producing a JSON-serialisable *case*
    run_case(case) -> Outcome     raises Violation when the property is broken
    (optional) ASSUMPTIONS  list of str copied to evidence
    (optional) STATEFUL = True, machine(case) ...   (see vf/shard.py)

Everything random is drawn inside strategy(); run_case is a pure function of the case and the
code under test, so a replay file (the JSON case) reproduces a failure without hypothesis.
"""
import hashlib
import json


class Violation(Exception):
    """The property is broken for the current case."""

    def __init__(self, msg, finding=None):
        super().__init__(msg)
        self.msg = msg
        self.finding = finding      # id of an open known finding this is attributed to (or None)


class HarnessError(Exception):
    """The harness itself is wrong (renderer bug, model bug...) - reported as exit 2, never as a violation."""


class Outcome:
    __slots__ = ('nontrivial', 'labels', 'excluded', 'known')

    def __init__(self, nontrivial=False, labels=(), excluded=0, known=()):
        self.nontrivial = bool(nontrivial)
        self.labels = list(labels)
        self.excluded = excluded          # number of sub-cases skipped because of an open known finding
        self.known = list(known)          # ids of open known findings reproduced by this case


def case_hash(case):
    return hashlib.blake2b(json.dumps(case, sort_keys=True, default=repr).encode(), digest_size=8).hexdigest()


def dumps(case):
    return json.dumps(case, default=repr, ensure_ascii=False)
