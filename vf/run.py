"""CLI:  python -m vf.run <ID> [--tier quick|thorough] [--replay FILE] [--shards N] [--examples N]

exit 0  property held on everything explored (known findings printed as KNOWN-FINDING lines)
exit 1  `VIOLATION property=<id> replay=<path>` printed
exit 2  harness problem (never a violation)
"""
import argparse
import collections
import glob
import json
import os
import subprocess
import sys
import tempfile
import time

HERE = os.path.dirname(os.path.dirname(os.path.abspath(__file__)))


def _rel(p):
    return os.path.relpath(p, HERE)


def replay_file(prop, path):
    from .core import Violation
    with open(path) as f:
        data = json.load(f)
    case = data['case'] if isinstance(data, dict) and 'case' in data and 'property' in data else data
    from . import findings
    try:
        prop.run_case(case)
    except Violation as v:
        if v.finding is not None and not findings.is_open(prop.ID, v.finding):
            v.finding = None
        return v
    return None


def write_evidence(pid, tier, seed, coverage, wall, violations, assumptions):
    ev = {
        'property_id': pid, 'tier': tier, 'seed': seed, 'level': 'exploration',
        'coverage': coverage, 'assumptions': assumptions, 'wall_s': round(wall, 2), 'violations': violations,
    }
    # evidence describes checks of /repo itself; runs against a scratch copy (sensitivity experiments) are kept apart
    sub = 'evidence' if os.path.realpath(os.environ.get('AY_REPO', '/repo')) == '/repo' else os.path.join('evidence', '.scratch')
    os.makedirs(os.path.join(HERE, sub), exist_ok=True)
    with open(os.path.join(HERE, sub, pid + '.json'), 'w') as f:
        json.dump(ev, f, indent=1, default=repr, ensure_ascii=False)
        f.write('\n')


def save_replay(pid, case, msg, prefix='viol'):
    from .core import case_hash
    d = os.path.join(HERE, 'replays', pid, 'found')
    os.makedirs(d, exist_ok=True)
    path = os.path.join(d, f'{prefix}-{case_hash(case)}.json')
    with open(path, 'w') as f:
        json.dump({'property': pid, 'msg': msg, 'case': case}, f, indent=1, default=repr, ensure_ascii=False)
    return path


def main(argv=None):
    argv = list(sys.argv[1:] if argv is None else argv)
    if argv and argv[0] == '_shard':
        from .shard import run_shard
        pid, tier, seed, shard, n, out = argv[1:7]
        return run_shard(pid, tier, int(seed), int(shard), int(n), out)

    ap = argparse.ArgumentParser()
    ap.add_argument('pid')
    ap.add_argument('--tier', default=os.environ.get('VERIF_TIER', 'quick'), choices=['quick', 'thorough'])
    ap.add_argument('--replay')
    ap.add_argument('--shards', type=int)
    ap.add_argument('--examples', type=int)
    ap.add_argument('--no-regress', action='store_true')
    args = ap.parse_args(argv)
    pid = args.pid.upper()
    try:
        seed = int(os.environ.get('VERIF_SEED', '0') or 0)
    except ValueError:
        seed = 0

    from .shard import load_prop, assert_repo
    from .core import HarnessError
    from . import findings
    try:
        prop = load_prop(pid)
        assert_repo()
    except Exception as e:
        print(f'HARNESS-ERROR: cannot load property {pid}: {e!r}')
        return 2

    if args.replay:
        try:
            v = replay_file(prop, args.replay)
        except Exception as e:
            import traceback
            traceback.print_exc()
            print(f'HARNESS-ERROR: replay raised {e!r}')
            return 2
        if v is not None:
            if v.finding is not None:
                print(f'KNOWN-FINDING: property={pid} {v.finding}: {v.msg}')
                return 0
            print(v.msg)
            print(f'VIOLATION property={pid} replay={args.replay}')
            return 1
        print(f'replay {args.replay}: property held')
        return 0

    t0 = time.time()
    # ---- regression tier: committed replays (shrunk failures of earlier development, fixed findings)
    regress = sorted(glob.glob(os.path.join(HERE, 'replays', pid, '*.json')))
    n_regress = 0
    known_seen = collections.OrderedDict()
    if not args.no_regress:
        for path in regress:
            try:
                v = replay_file(prop, path)
            except Exception as e:
                import traceback
                traceback.print_exc()
                print(f'HARNESS-ERROR: replay {path} raised {e!r}')
                return 2
            n_regress += 1
            if v is not None:
                if v.finding is not None:
                    known_seen.setdefault(v.finding, v.msg)
                    continue
                print(v.msg)
                print(f'VIOLATION property={pid} replay={_rel(path)}')
                write_evidence(pid, args.tier, seed, {
                    'evaluations': n_regress, 'distinct_nontrivial': 0, 'rule': prop.RULE, 'samples': [_rel(path)],
                    'explanation': 'stopped in the regression tier'}, time.time() - t0, 1, getattr(prop, 'ASSUMPTIONS', []))
                return 1

    shards, examples = prop.BUDGET[args.tier]
    if args.shards:
        shards = args.shards
    if args.examples:
        examples = args.examples
    scale = float(os.environ.get('VF_SCALE', '1'))
    examples = max(1, int(examples * scale))
    tmp = tempfile.mkdtemp(prefix=f'vf-{pid}-')
    procs = []
    for i in range(shards):
        out = os.path.join(tmp, f'shard{i}.json')
        cmd = [sys.executable, '-m', 'vf.run', '_shard', pid, args.tier, str(seed), str(i), str(examples), out]
        # (output goes to a file, not a pipe: the shards are waited for one after the other, and one that fills its pipe would stall)
        logf = open(os.path.join(tmp, f'shard{i}.log'), 'wb')
        procs.append((i, out, subprocess.Popen(cmd, cwd=HERE, stdout=logf, stderr=subprocess.STDOUT), logf))
    backstop = float(os.environ.get('VF_BACKSTOP_S', '1500' if args.tier == 'quick' else '14000'))
    results, harness, crashed = [], [], []
    for i, out, p, logf in procs:
        try:
            remaining = max(1.0, backstop - (time.time() - t0))
            p.wait(timeout=remaining)
        except subprocess.TimeoutExpired:
            p.kill()
            p.wait()
            logf.close()
            harness.append(f'shard {i}: wall-clock backstop of {backstop}s hit (inconclusive)')
            continue
        logf.close()
        with open(logf.name, 'rb') as f:
            f.seek(max(0, os.path.getsize(logf.name) - 20000))
            log = f.read()
        if os.path.exists(out):
            with open(out) as f:
                results.append(json.load(f))
            if results[-1]['status'] == 'harness':
                harness.append(f'shard {i}: ' + results[-1].get('error', '?'))
        else:
            cur = out + '.cur'
            if os.path.exists(cur) and p.returncode not in (0, None):
                with open(cur) as f:
                    crashed.append((i, p.returncode, json.load(f)))
            else:
                harness.append(f'shard {i} died rc={p.returncode}:\n' + (log or b'').decode(errors='replace')[-3000:])

    # ---- merge
    evaluations = n_regress
    nontrivial, labels, samples, excluded = set(), collections.Counter(), [], 0
    violations = []
    for r in results:
        st = r['stats']
        evaluations += st['evaluations']
        nontrivial.update(st['nontrivial'])
        labels.update(st['labels'])
        excluded += st['excluded']
        for s in st['samples']:
            if len(samples) < 6:
                samples.append(s)
        for k, kc in r.get('known_cases', {}).items():
            known_seen.setdefault(k, kc['msg'])
        if r['status'] == 'violation':
            violations.append((r['case'], r['msg']))
    for i, rc, case in crashed:
        violations.append((case, f'interpreter died (exit status {rc}) while running this case'))
    import shutil
    shutil.rmtree(tmp, ignore_errors=True)

    wall = time.time() - t0
    coverage = {
        'evaluations': evaluations, 'distinct_nontrivial': len(nontrivial), 'rule': prop.RULE,
        'samples': samples or ['<no non-trivial case generated>'], 'classes': dict(sorted(labels.items())),
        'regression_replays': n_regress, 'shards': shards, 'examples_per_shard': examples,
        'excluded_by_known_finding': excluded, 'known_findings_reproduced': list(known_seen),
        'exhaustive': False,
    }
    write_evidence(pid, args.tier, seed, coverage, wall, len(violations), getattr(prop, 'ASSUMPTIONS', []))

    for k, msg in known_seen.items():
        line = findings.describe(pid, k) or msg
        print(f'KNOWN-FINDING: property={pid} {k}: {line}')
    print(f'{pid} tier={args.tier} seed={seed} evaluations={evaluations} distinct_nontrivial={len(nontrivial)} '
          f'wall={wall:.1f}s classes={dict(labels.most_common(12))}')
    if violations:
        case, msg = min(violations, key=lambda cm: len(json.dumps(cm[0], default=repr)))
        path = save_replay(pid, case, msg)
        print(msg)
        print(f'VIOLATION property={pid} replay={_rel(path)}')
        return 1
    if harness:
        for h in harness:
            print('HARNESS-ERROR:', h)
        return 2
    if len(nontrivial) < 2:
        print('HARNESS-ERROR: fewer than 2 distinct non-trivial cases generated')
        return 2
    return 0


if __name__ == '__main__':
    sys.exit(main())
