"""Hypothesis strategies shared by the property modules (all produce JSON-serialisable ASTs, see tdoc.py)."""
import re

from hypothesis import strategies as st

from . import tdoc

_FSTR = re.compile(r"^\s*f(['\"]).*\1\s*$")

AWKWARD_STR = ['', ' ', 'yes', 'no', 'on', '~', 'null', 'Null', 'true', '1e3', '0x10', '010', '1_000', '.5', '-', '?', '-.inf',
               'a: b', '- x', '#c', "it's", 'say "hi"', 'multi\nline', 'tab\there', 'é中😀', '{x}', '[y]', '!tag', '&a', '*a', '%d',
               '@x', '`q`', 'a,b', 'trail ', ' lead', '1.0', '2001-01-01x', 'key: value', '|', '>', "''", '""', '\\n', 'x' * 90,
               "f'{1+1}'", 'f"a"', '12', '-3', '1.5e+3', 'two\nlines', 'ends with a line break\n', 'a\nb\n', 'keeps\n\n\n']

_text = st.text(alphabet=st.sampled_from(list('abcxyz019 _-.:,#\'"{}[]!&*?|>%@`\\/\n\t') + ['é', '中', '😀']), max_size=12)


def _ok_str(s):
    return True     # f-string look-alikes are ordinary strings as long as they are quoted: the renderer takes care of that


STRINGS = st.one_of(st.sampled_from(['a', 'b', 'x', 'foo', 'bar']), st.sampled_from(AWKWARD_STR), _text).filter(_ok_str)
INTS = st.one_of(st.integers(-3, 20), st.sampled_from([0, 1, -1, 255, 2**31, -2**63, 10**20, 12345678901234567890]))
FLOATS = st.one_of(st.sampled_from([0.0, -0.0, 1.5, -2.25, 1e22, 1e-7, float('inf'), float('-inf'), 3.0, 0.1]),
                   st.floats(allow_nan=False, allow_infinity=False, width=64))
SCALARS = st.one_of(st.none(), st.booleans(), INTS, FLOATS, STRINGS)
SIMPLE_SCALARS = st.one_of(st.none(), st.booleans(), st.integers(-3, 9), st.sampled_from([1.5, -0.5, 1.0, 0.0]), st.sampled_from(['a', 'b', 's', '', 'yes']))
QUOTES = st.sampled_from(['plain', 'plain', 'single', 'double', 'alt', 'block'])

_forbidden = None


def forbidden_keys():
    """Key names the loader rejects by design: attribute names of the node classes."""
    global _forbidden
    if _forbidden is None:
        from awesomeyaml.nodes.dict import ConfigDict
        from awesomeyaml.nodes.call import CallNode
        from awesomeyaml.nodes.bind import BindNode
        _forbidden = set(dir(ConfigDict)) | set(dir(CallNode)) | set(dir(BindNode))
    return _forbidden


# '_delete' / '_func': names of instance attributes of the node classes (not class attributes, which the loader rejects) are keys like any other
MERGE_KEYS = st.sampled_from(['a', 'b', 'c', 'd', 'x', '_u', '_delete', 0, 1, 2, -1])
MERGE_KEYS_NONEG = st.sampled_from(['a', 'b', 'c', 'd', 'x', '_u', '_delete', 0, 1, 2])


def any_keys():
    weird = st.one_of(
        st.sampled_from(['a', 'b', 'c', '_x', '__y', '_', '_delete', '_func', '_priority', '_children', 'A b', 'k-1', 'yes', '1', '1.5', 'null', '~', 'é', 'a.b', 'a[0]', "q'q", 'x:y', '0x1']),
        st.integers(-5, 40), st.sampled_from([2**40, -7]),
        st.sampled_from([1.5, -0.5, 1e22, 2.0, 0.25]),
        st.text(alphabet='abc_XY09 -.', min_size=1, max_size=6))
    return weird.filter(lambda k: not (isinstance(k, str) and (k in forbidden_keys() or not _ok_str(k) or k != k.strip() or k == '')))


@st.composite
def scalar_node(draw, values=SCALARS):
    return tdoc.sc(draw(values), q=draw(QUOTES))


@st.composite
def scalar_or_timestamp(draw, values=SCALARS, one_in=30):
    """Mostly a scalar node; now and then a yaml timestamp (a date / a naive or zoned datetime, which json cannot hold: a verbatim node)."""
    if draw(st.integers(0, one_in - 1)) == 0:
        return tdoc.ts(draw(st.sampled_from(tdoc.TIMESTAMPS)))
    return tdoc.sc(draw(values), q=draw(QUOTES))


def tree(leaves, keys, max_leaves=10, min_children=0, max_children=4):
    """Recursive AST strategy: nested maps / seqs over the given leaves and key strategy."""
    def extend(children):
        m = st.lists(st.tuples(keys, children), min_size=min_children, max_size=max_children,
                     unique_by=lambda kv: (type(kv[0]).__name__ if not isinstance(kv[0], (int, float)) or isinstance(kv[0], bool) else 'num', kv[0]))
        maps = st.builds(lambda items, flow: tdoc.mp(items, flow=flow), m, st.booleans())
        seqs = st.builds(lambda items, flow: tdoc.sq(items, flow=flow), st.lists(children, min_size=min_children, max_size=max_children), st.booleans())
        return st.one_of(maps, seqs)
    return st.recursive(leaves, extend, max_leaves=max_leaves)


def mapping_doc(leaves, keys, max_leaves=10, max_children=4, min_size=0):
    sub = tree(leaves, keys, max_leaves=max_leaves, max_children=max_children)
    m = st.lists(st.tuples(keys, sub), min_size=min_size, max_size=max_children,
                 unique_by=lambda kv: ('num' if isinstance(kv[0], (int, float)) and not isinstance(kv[0], bool) else 'str', kv[0]))
    return st.builds(lambda items, flow: tdoc.mp(items, flow=flow and False), m, st.booleans())


@st.composite
def mutate(draw, node, fresh, keys, p_depth=0, neg=True):
    """A document derived from `node`: keep / drop / replace parts, so that paths collide with the original."""
    choice = draw(st.integers(0, 9))
    if choice == 0:
        return draw(fresh)
    t = node['t']
    if t == 'map':
        items = []
        for k, v in node['items']:
            c = draw(st.integers(0, 3))
            if c == 0:
                continue
            items.append([k, draw(mutate(v, fresh, keys, p_depth + 1, neg))])
        if draw(st.booleans()):
            k = draw(keys)
            if all(k != k2 for k2, _ in items):
                items.append([k, draw(fresh)])
        return tdoc.mp(items, flow=draw(st.booleans()))
    if t == 'seq':
        c = draw(st.integers(0, 3))
        if c == 0 and node['items']:
            # mapping addressed onto the list
            n = len(node['items'])
            idxs = draw(st.lists(st.integers(-n - 1 if neg else 0, n), max_size=3, unique=True))
            if neg and draw(st.integers(0, 2)) == 0:
                idxs = list(draw(st.permutations([n, -1])))     # the position just past the end together with one counted from the end
            return tdoc.mp([(i, draw(mutate(node['items'][i], fresh, keys, p_depth + 1, neg)) if -n <= i < n else draw(fresh)) for i in idxs],
                           flow=draw(st.booleans()))
        if c == 1:
            return tdoc.sq([draw(mutate(v, fresh, keys, p_depth + 1, neg)) for v in node['items'][:draw(st.integers(0, len(node['items'])))]],
                           flow=draw(st.booleans()))
        return draw(fresh)
    if node['t'] == 'sc' and not isinstance(node['v'], str) and node['v'] in (0, 1) and draw(st.integers(0, 2)) == 0:
        # the "same" number in another type (1 / true / 1.0 compare equal in python but are different yaml values)
        twins = [x for x in ([1, True, 1.0] if node['v'] == 1 else [0, False, 0.0]) if type(x) is not type(node['v'])]
        return tdoc.sc(twins[draw(st.integers(0, 1))])
    return draw(fresh) if draw(st.booleans()) else dict(node)


@st.composite
def stage_sequence(draw, leaves, keys, min_stages=1, max_stages=4, max_leaves=8, neg=True):
    fresh = tree(leaves, keys, max_leaves=4, max_children=3)
    docs = [draw(mapping_doc(leaves, keys, max_leaves=max_leaves))]
    n = draw(st.sampled_from([k for k in (2, 2, 3, 3, 4, 1, 5) if min_stages <= k <= max_stages] or [min_stages]))
    while len(docs) < n:
        if draw(st.integers(0, 2)) > 0:
            base = docs[draw(st.integers(0, len(docs) - 1))]
            d = draw(mutate(base, fresh, keys, 0, neg))
            if d['t'] != 'map':
                d = draw(mapping_doc(leaves, keys, max_leaves=max_leaves))
            d['flow'] = False
        else:
            d = draw(mapping_doc(leaves, keys, max_leaves=max_leaves))
        docs.append(d)
    return docs


# ------------------------------------------------------------------------------------------ merge-control flags

MD_KEYS = st.sampled_from(['k1', 'k2', 'note'])
MD_VALUES = st.one_of(st.integers(0, 5), st.sampled_from(['v', 'w', '']), st.booleans(), st.none(),
                      st.lists(st.integers(0, 3), max_size=2))


def flag_set(prio=True, delete=True, new=True, unsafe=True, md=True, notnew=False, p_none=4):
    """Strategy for a dict of flags to put on one node (possibly empty)."""
    opts = []
    if prio:
        opts.append(st.fixed_dictionaries({'prio': st.sampled_from([1, -1])}))
    if delete:
        opts.append(st.fixed_dictionaries({'del': st.booleans()}))
    if new:
        opts.append(st.fixed_dictionaries({'new': st.just(True) if not notnew else st.booleans()}))
    if unsafe:
        opts.append(st.fixed_dictionaries({'unsafe': st.just(True)}))
    if md:
        opts.append(st.fixed_dictionaries({'md': st.dictionaries(MD_KEYS, MD_VALUES, min_size=1, max_size=2)}))
    one = st.one_of(*opts)
    several = st.lists(one, min_size=2, max_size=3).map(lambda ds: {k: v for d in ds for k, v in d.items()})
    styled = st.tuples(st.one_of(one, one, several), st.sampled_from(['short', 'short', 'braces', 'hex'])).map(
        lambda t: {**t[0], 'mdstyle': t[1]})
    return st.one_of(*([st.just({})] * p_none), styled)


@st.composite
def decorate(draw, node, flags, valueless=True, root=True):
    """Copy of `node` with flags drawn for every node; None scalars may become value-less nodes."""
    out = {k: v for k, v in node.items() if k not in tdoc.FLAG_KEYS and k != 'mdstyle'}
    if node['t'] == 'alias':
        return out          # an alias cannot carry a tag of its own
    if node['t'] == 'map':
        out['items'] = [[k, draw(decorate(v, flags, valueless, False))] for k, v in node['items']]
    elif node['t'] == 'seq':
        out['items'] = [draw(decorate(v, flags, valueless, False)) for v in node['items']]
    elif node['t'] == 'sc' and node['v'] is None and valueless and draw(st.booleans()):
        out = {'t': 'empty'}
    out.update(draw(flags))
    return out


# ------------------------------------------------------------------------------------------ merge-control decorated stage sequences

@st.composite
def decorate_merge(draw, node, prio=True, delete=True, new=True, notnew=False, unsafe=False, md=False,
                   prio_above=False, density=4, empty_del=False, root=True, merge_in_list=True, in_list=False):
    """Copy of a plain AST with merge-control flags, inside the soundness limits of DESIGN section 6:
    at most one priority tag per root-to-leaf path; explicit delete flags on containers only and never !del on an
    empty container (the remove-this-key idiom) unless empty_del."""
    out = {k: v for k, v in node.items() if k not in tdoc.FLAG_KEYS and k != 'mdstyle'}
    fl = {}
    t = node['t']
    if prio and not prio_above and draw(st.integers(0, density)) == 0:
        fl['prio'] = draw(st.sampled_from([1, -1]))
        prio_above = True
    if delete and t in ('map', 'seq') and draw(st.integers(0, density)) == 0:
        d = draw(st.booleans())
        if (d is False and (merge_in_list or not (in_list or t == 'seq'))) or (d is True and (node['items'] or empty_del)):
            fl['del'] = d
    if new and draw(st.integers(0, density * 3)) == 0:
        fl['new'] = draw(st.booleans()) if notnew else True
    if unsafe and draw(st.integers(0, density * 2)) == 0:
        fl['unsafe'] = True
    if md and draw(st.integers(0, density * 2)) == 0:
        fl['md'] = {draw(MD_KEYS): draw(MD_VALUES)}
    if fl:
        fl['mdstyle'] = draw(st.sampled_from(['short', 'braces', 'hex']))
    kw = dict(prio=prio, delete=delete, new=new, notnew=notnew, unsafe=unsafe, md=md, prio_above=prio_above,
              density=density, empty_del=empty_del, root=False, merge_in_list=merge_in_list, in_list=in_list or t == 'seq')
    if t == 'map':
        out['items'] = [[k, draw(decorate_merge(v, **kw))] for k, v in node['items']]
    elif t == 'seq':
        out['items'] = [draw(decorate_merge(v, **kw)) for v in node['items']]
    out.update(fl)
    return out


@st.composite
def tagged_stages(draw, min_stages=1, max_stages=4, keys=MERGE_KEYS, leaves=None, max_leaves=8, neg=True, **kw):
    leaves = leaves or scalar_node(SIMPLE_SCALARS)
    docs = draw(stage_sequence(leaves, keys, min_stages=min_stages, max_stages=max_stages, max_leaves=max_leaves, neg=neg))
    return [draw(decorate_merge(d, **kw)) for d in docs]


# ------------------------------------------------------------------------------------------ full tag vocabulary (C18, C19)

def _md_flags(draw, allow_md=True, prio=True, delete=True, density=3):
    fl = {}
    if draw(st.integers(0, density)) != 0:
        return fl
    if prio and draw(st.booleans()):
        fl['prio'] = draw(st.sampled_from([1, -1]))
    if delete and draw(st.integers(0, 2)) == 0:
        fl['del'] = draw(st.booleans())
    if draw(st.integers(0, 3)) == 0:
        fl['new'] = draw(st.booleans())
    if draw(st.integers(0, 3)) == 0:
        fl['unsafe'] = True
    if allow_md and draw(st.integers(0, 2)) == 0:
        fl['md'] = {draw(MD_KEYS): draw(MD_VALUES)}
    if fl:
        fl['mdstyle'] = draw(st.sampled_from(['short', 'braces', 'hex']))
    return fl


@st.composite
def special_leaf(draw, ctr, files=('inc_a.yaml', 'inc_b.yaml'), allow_structural=True):
    """A dynamic / structural node of a random kind (AST)."""
    kinds = ['xref', 'ref', 'eval', 'evalml', 'fstr', 'fstr_implicit', 'import', 'required', 'null', 'path', 'pathref', 'pathabs',
             'pathmd', 'call', 'bind', 'callsimple']
    if allow_structural:
        kinds += ['clear', 'prev', 'include', 'includelist', 'rec', 'append', 'extend']
    k = draw(st.sampled_from(kinds))
    ctr[0] += 1
    n = ctr[0]
    fl = _md_flags(draw)
    if k == 'xref':
        node = tdoc.raw(draw(st.sampled_from(['a', 'a.b', 'x[0]', 'c.d[1].e'])), '!xref')
    elif k == 'ref':
        node = tdoc.raw(draw(st.sampled_from(['a', 'b.c'])), '!ref')
    elif k == 'eval':
        node = tdoc.raw(draw(st.sampled_from(['1 + 1', 'len("abc")', "'q' * 2", 'a'])), '!eval', q=draw(st.sampled_from(['dq', 'single', 'plain'])))
    elif k == 'evalml':
        node = tdoc.raw(f'v = {n}\ndef f(x):\n    return x + v\nf(1)', '!eval', q='block')
    elif k == 'fstr':
        node = tdoc.raw('f"v{1 + 1}"', '!fstr', q='verbatim')
        fl = {}
    elif k == 'fstr_implicit':
        node = {'t': 'raw', 'text': "f'w{2 * 2}'", 'q': 'verbatim'}
        fl = {}
    elif k == 'import':
        node = tdoc.raw(draw(st.sampled_from(['os.path', 'math.pi', 'vfrec.ident'])), '!import')
    elif k == 'required':
        node = {'t': 'empty', 'tag': '!required'}
    elif k == 'null':
        node = {'t': 'empty', 'tag': '!null'}
    elif k == 'clear':
        node = {'t': 'empty', 'tag': '!clear'}
    elif k == 'prev':
        node = tdoc.raw(draw(st.sampled_from(['a', 'b.c'])), '!prev')
        fl = {}
    elif k == 'include':
        node = tdoc.raw(draw(st.sampled_from(files)), '!include')
        fl = {}
    elif k == 'includelist':
        node = tdoc.sq([tdoc.sc(f) for f in files], flow=True, tag='!include')
        fl = {}
    elif k == 'rec':
        node = tdoc.raw(draw(st.sampled_from(files)), '!rec')
    elif k == 'path':
        node = tdoc.sq([tdoc.sc('a'), tdoc.sc('b')], flow=True, tag='!path')
        fl = {}
    elif k == 'pathmd':
        # no reference point, but flags / metadata: '!path:{{..}}' (the first suffix of this tag is the reference point)
        node = tdoc.sq([tdoc.sc('q')], flow=True, tag='!path:')
    elif k == 'pathref':
        node = tdoc.sq([tdoc.sc('x')], flow=True, tag='!path:' + draw(st.sampled_from(['cwd', 'file', 'parent', 'parent(1)'])))
    elif k == 'pathabs':
        node = tdoc.sq([tdoc.sc('y')], flow=True, tag='!path:abs(/opt/data)')
        fl = {}
    elif k in ('call', 'bind'):
        nargs = draw(st.integers(0, 2))
        items = []
        for key in draw(st.lists(st.sampled_from(['x', 'y', 0, 1, 'x', 'y', 'copy', 'values']), min_size=nargs, max_size=nargs, unique=True)):
            v = draw(st.one_of(st.integers(0, 9).map(tdoc.sc), st.just(tdoc.raw('a', '!xref')), st.just(tdoc.sq([tdoc.sc(1)], flow=True))))
            items.append([key, v])
        node = tdoc.mp(items, flow=True, tag=f'!{k}:vfrec.call_{n}')
        if draw(st.integers(0, 3)) == 0:
            # function nodes delete by default: an explicit "merge" (or a restated "delete") is a flag the text has to carry
            fl['del'] = draw(st.sampled_from([False, False, True]))
            fl.setdefault('mdstyle', 'braces')
    elif k == 'callsimple':
        node = tdoc.raw(f'vfrec.call_{n}', draw(st.sampled_from(['!call', '!bind'])))
        fl = {}
    elif k == 'append':
        node = tdoc.sq([tdoc.sc(draw(st.integers(0, 9))) for _ in range(draw(st.integers(0, 2)))], flow=True, tag='!append')
        fl = {}
    else:
        node = tdoc.sq([tdoc.sc(draw(st.integers(0, 9))) for _ in range(draw(st.integers(0, 2)))], flow=True, tag='!extend')
    node.update(fl)
    return node


def _maybe_anchor(draw, node, ctr):
    """yaml anchor on a (finished) container, so that later values of the document can be aliases of it"""
    if len(ctr) > 1 and draw(st.integers(0, 3)) == 0:
        ctr[1] += 1
        node['anchor'] = f'a{ctr[1]}'


@st.composite
def full_value(draw, ctr, depth=0, allow_structural=True, scalars=None):
    # ctr = [node counter, number of anchors defined so far (only when aliases are wanted: len(ctr) > 1)]
    if len(ctr) > 1 and ctr[1] and draw(st.integers(0, 9)) == 0:
        return {'t': 'alias', 'name': f'a{draw(st.integers(1, ctr[1]))}'}
    c = draw(st.integers(0, 9))
    if c <= 2 and depth < 3:
        n = draw(st.integers(0, 3))
        keys = draw(st.lists(MERGE_KEYS_NONEG, min_size=n, max_size=n, unique=True))
        node = tdoc.mp([(k, draw(full_value(ctr, depth + 1, allow_structural, scalars))) for k in keys], flow=draw(st.booleans()))
        node.update(_md_flags(draw))
        _maybe_anchor(draw, node, ctr)
        return node
    if c <= 4 and depth < 3:
        node = tdoc.sq([draw(full_value(ctr, depth + 1, allow_structural, scalars)) for _ in range(draw(st.integers(0, 3)))], flow=draw(st.booleans()))
        node.update(_md_flags(draw))
        _maybe_anchor(draw, node, ctr)
        return node
    if c <= 6:
        node = draw(special_leaf(ctr, allow_structural=allow_structural))
        if len(ctr) > 2:
            _maybe_anchor(draw, node, ctr)      # dynamic / structural nodes of every kind re-used through an alias (aliases='all')
        return node
    if draw(st.integers(0, 24)) == 0:
        node = tdoc.ts(draw(st.sampled_from(tdoc.TIMESTAMPS)))      # yaml timestamp: a date / datetime scalar
    else:
        node = tdoc.sc(draw(scalars if scalars is not None else SIMPLE_SCALARS), q=draw(QUOTES))
    if node['t'] == 'sc' and node['v'] is None and draw(st.booleans()):
        node = {'t': 'empty'}
    node.update(_md_flags(draw))
    if len(ctr) > 2 and (node['t'] in ('sc', 'raw') or any(k in node for k in tdoc.FLAG_KEYS)):
        _maybe_anchor(draw, node, ctr)          # scalars, tagged or not
    return node


@st.composite
def full_doc(draw, allow_structural=True, scalars=None, min_keys=1, aliases=False):
    ctr = [0, 0, 1] if aliases == 'all' else [0, 0] if aliases else [0]
    n = draw(st.integers(min_keys, 4))
    keys = draw(st.lists(MERGE_KEYS_NONEG.filter(lambda k: isinstance(k, str)), min_size=n, max_size=n, unique=True))
    root = tdoc.mp([(k, draw(full_value(ctr, 1, allow_structural, scalars))) for k in keys])
    root.update(_md_flags(draw, density=5))
    return root
