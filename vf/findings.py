"""known_findings.txt parser.

Lines:
    fixed:   property=C01 <commit> <what failed>
    finding: property=C18 id=<slug> <what fails>

`fixed:` entries suppress nothing.  An open `finding:` is attributed by the property module itself
(it raises Violation(..., finding='<slug>') only when its classifier - a counterfactual re-run with
the trigger removed - says so); the runner merely prints the KNOWN-FINDING line for slugs listed here.
A slug raised by a property module but *not* listed in the file is treated as an ordinary violation.
"""
import os
import re

HERE = os.path.dirname(os.path.dirname(os.path.abspath(__file__)))
_cache = None


def load():
    global _cache
    if _cache is None:
        _cache = {'fixed': [], 'open': {}}
        path = os.path.join(HERE, 'known_findings.txt')
        if os.path.exists(path):
            for line in open(path):
                line = line.strip()
                if not line or line.startswith('#'):
                    continue
                m = re.match(r'finding:\s+property=(C\d+)\s+id=(\S+)\s+(.*)$', line)
                if m:
                    _cache['open'][(m.group(1), m.group(2))] = m.group(3)
                    continue
                m = re.match(r'fixed:\s+property=(C\d+)\s+(\S+)\s+(.*)$', line)
                if m:
                    _cache['fixed'].append(m.groups())
    return _cache


def is_open(pid, slug):
    return (pid, slug) in load()['open']


def describe(pid, slug):
    return load()['open'].get((pid, slug))
