"""Observers over the public API of awesomeyaml, and typed canonical forms for comparison."""
import math

from awesomeyaml.nodes.node import ConfigNode
from awesomeyaml.nodes.composed import ComposedNode


def canon(x):
    """Typed canonical form: equal canon <=> same exact builtin types, same order, same values."""
    if isinstance(x, dict):
        return ['d', [[canon(k), canon(v)] for k, v in x.items()]]
    if isinstance(x, (list,)):
        return ['l', [canon(v) for v in x]]
    if isinstance(x, tuple):
        return ['t', [canon(v) for v in x]]
    if x is None:
        return ['n']
    if type(x) is bool:
        return ['b', x]
    if type(x) is int:
        return ['i', x]
    if type(x) is float:
        return ['f', repr(x)]
    if type(x) is str:
        return ['s', x]
    return ['o', type(x).__module__ + '.' + type(x).__qualname__, repr(x)]


def canon_unordered(x):
    """Like canon but mappings compare regardless of key order."""
    if isinstance(x, dict):
        return ['d', sorted(([canon_unordered(k), canon_unordered(v)] for k, v in x.items()), key=repr)]
    if isinstance(x, list):
        return ['l', [canon_unordered(v) for v in x]]
    if isinstance(x, tuple):
        return ['t', [canon_unordered(v) for v in x]]
    return canon(x)


def native_scalar(node):
    return node.ayns.native_value


def plain(node):
    """Plain python data held by an (unevaluated) node tree, via the public child API only."""
    from awesomeyaml.nodes.function import FunctionNode
    if isinstance(node, ComposedNode):
        if isinstance(node, dict):
            out = {}
            for name, child in node.ayns.named_children():
                key = name.ayns.native_value if isinstance(name, ConfigNode) else name
                out[key] = plain(child)
            if isinstance(node, FunctionNode):
                f = node.ayns.func
                return {'__func__': str(f) if isinstance(f, str) else getattr(f, '__qualname__', type(f).__name__), '__kind__': type(node).__name__, 'args': out}
            return out
        out = [plain(child) for _, child in node.ayns.named_children()]
        if type(node).__name__ not in ('ConfigList',):
            return {'__kind__': type(node).__name__, 'items': out, **({'ref_point': str(node.ref_point)} if hasattr(node, 'ref_point') else {})}
        return out
    if isinstance(node, ConfigNode):
        kind = type(node).__name__
        if kind.startswith('ConfigScalar('):
            return node.ayns.native_value
        if kind in ('RequiredNode', 'ClearNode'):
            return {'__kind__': kind}
        if kind == 'IncludeNode':
            return {'__kind__': kind, 'files': list(node.filenames)}
        try:
            # an f-string node is an eval node of the same text (it is dumped as such)
            return {'__kind__': 'EvalNode' if kind == 'FStrNode' else kind, 'value': str(node)}
        except Exception:
            return {'__kind__': kind}
    return node


def to_builtin(x):
    """Evaluated config -> builtin containers (Bunch/Config -> dict), leaves untouched."""
    if isinstance(x, dict):
        return {k: to_builtin(v) for k, v in x.items()}
    if isinstance(x, list):
        return [to_builtin(v) for v in x]
    if isinstance(x, tuple):
        return tuple(to_builtin(v) for v in x)
    return x


def flags(node):
    a = node.ayns
    return {'priority': a.priority, 'delete': a.delete, 'allow_new': a.allow_new, 'safe': a.safe,
            'explicit_delete': a.explicit_delete, 'metadata': dict(a.metadata)}


def exc_chain(e):
    out = []
    seen = set()
    while e is not None and id(e) not in seen:
        seen.add(id(e))
        out.append(e)
        e = e.__cause__ or e.__context__
    return out


def exc_kind(e):
    """Class name of the awesomeyaml error (top of the chain)."""
    return type(e).__name__


def build_nodes(texts, safe=None, filenames=None):
    """Builder.build() over raw yaml texts -> merged node tree (or None)."""
    from awesomeyaml.builder import Builder
    b = Builder()
    for i, t in enumerate(texts):
        kw = {}
        if safe is not None:
            kw['safe'] = safe[i]
        if filenames is not None:
            kw['filename'] = filenames[i]
        b.add_source(t, raw_yaml=True, **kw)
    return b.build()


def build_config(texts, **kw):
    from awesomeyaml import Config
    return Config.build(*texts, raw_yaml=True, **kw)


def try_call(fn, *a, **kw):
    """-> ('ok', value) | ('err', exception)"""
    try:
        return 'ok', fn(*a, **kw)
    except RecursionError:
        raise
    except Exception as e:      # noqa: every exception of the implementation is an observation
        return 'err', e
