"""Grammar-based generator of python programs for !eval nodes (C12), as a hypothesis composite.

A generated program is a list of source lines (the last one a one-line expression at column 0) over four pools of
names with deliberate shadowing: names the code defines itself, evaluation symbols, top-level config keys, builtins.
All integer-typed so that most programs run to completion; division by possibly-zero values provides exceptions.
"""
from hypothesis import strategies as st

BUILTIN_FUNCS = ['len', 'sum', 'max', 'min', 'abs', 'sorted']
SHADOWABLE = ['min', 'abs', 'hash', 'id']         # builtin names that may also be config keys / symbols / own names
INT_LIT = st.integers(0, 9)


class Env:
    def __init__(self, ints, lists, funcs, shadowed):
        self.ints = list(ints)          # names bound to ints
        self.lists = list(lists)        # names bound to lists of ints
        self.funcs = list(funcs)        # names bound to int -> int callables
        self.shadowed = set(shadowed)   # builtin names that are not usable as builtins
        self.n = 0
        self.kinds = set()
        self.pools_used = set()
        self.pool_of = {}

    def fresh(self, prefix):
        self.n += 1
        return f'{prefix}{self.n}'


def _name(draw, env, names):
    nm = names[draw(st.integers(0, len(names) - 1))]
    if nm in env.pool_of:
        env.pools_used.add(env.pool_of[nm])
    return nm


def iexpr(draw, env, depth=0, local=()):
    """Source of an int-valued expression."""
    ints = list(env.ints) + list(local)
    c = draw(st.integers(0, 11 if depth < 3 else 2))
    if c <= 1 or (c == 2 and not ints):
        return str(draw(INT_LIT))
    if c == 2 or c == 3:
        if not ints:
            return str(draw(INT_LIT))
        return _name(draw, env, ints)
    if c == 4:
        op = draw(st.sampled_from(['+', '-', '*', '+', '%', '//']))
        a, b = iexpr(draw, env, depth + 1, local), iexpr(draw, env, depth + 1, local)
        if op in ('%', '//'):
            b = f'({b} + 1)' if draw(st.integers(0, 4)) else b       # mostly non-zero; sometimes a ZeroDivisionError
        return f'({a} {op} {b})'
    if c == 5:
        a, b = iexpr(draw, env, depth + 1, local), iexpr(draw, env, depth + 1, local)
        cond = cexpr(draw, env, depth + 1, local)
        env.kinds.add('conditional-expr')
        return f'({a} if {cond} else {b})'
    if c == 6 and env.lists:
        ln = _name(draw, env, env.lists)
        f = draw(st.sampled_from([b for b in ['len', 'sum', 'max', 'min'] if b not in env.shadowed]))
        env.pools_used.add('builtin')
        if f in ('max', 'min'):
            return f'{f}({ln} + [0])'
        return f'{f}({ln})'
    if c == 7 and env.funcs:
        fn = _name(draw, env, env.funcs)
        return f'{fn}({iexpr(draw, env, depth + 1, local)})'
    if c == 8:
        env.kinds.add('lambda')
        free = iexpr(draw, env, depth + 2, local + ('x',))
        return f'(lambda x: {free})({iexpr(draw, env, depth + 1, local)})'
    if c == 9 and env.lists:
        env.kinds.add('comprehension')
        ln = _name(draw, env, env.lists)
        body = iexpr(draw, env, depth + 2, local + ('e',))
        cond = cexpr(draw, env, depth + 2, local + ('e',))
        form = draw(st.integers(0, 3))
        if form == 0:
            return f'sum([{body} for e in {ln} if {cond}])'
        if form == 1:
            return f'sum({body} for e in {ln})'
        if form == 2:
            return f'len({{e: {body} for e in {ln}}})'
        return f'len({{{body} for e in {ln} if {cond}}})'
    if c == 10 and 'abs' not in env.shadowed:
        env.pools_used.add('builtin')
        return f'abs({iexpr(draw, env, depth + 1, local)})'
    if c == 11 and env.lists:
        ln = _name(draw, env, env.lists)
        return f'({ln} + [7])[{draw(st.integers(-1, 0))}]'
    return str(draw(INT_LIT))


def cexpr(draw, env, depth=0, local=()):
    a, b = iexpr(draw, env, depth + 1, local), iexpr(draw, env, depth + 1, local)
    op = draw(st.sampled_from(['<', '>', '==', '!=', '<=']))
    s = f'{a} {op} {b}'
    if depth < 2 and draw(st.integers(0, 3)) == 0:
        s = f'({s}) {draw(st.sampled_from(["and", "or"]))} ({cexpr(draw, env, depth + 2, local)})'
    if draw(st.integers(0, 5)) == 0:
        s = f'not ({s})'
    return s


def _ind(lines, n=4):
    return [' ' * n + ln for ln in lines]


def statement(draw, env):
    """-> list of source lines; updates env."""
    c = draw(st.integers(0, 18))
    if c >= 18:
        # ';' - inside string literals, and between statements that share a line (at top level / inside a block)
        env.kinds.add('semicolon')
        v, w = env.fresh('v'), env.fresh('w')
        k = draw(st.integers(0, 2))
        if k == 0:
            lines = [f"{v} = len('a;b') + {iexpr(draw, env)}", f'{w} = len(";") + {draw(INT_LIT)}']
        elif k == 1:
            lines = [f'{v} = {iexpr(draw, env)}; {w} = {v} + {draw(INT_LIT)}']
        else:
            lines = ['if True:', f'    {v} = {iexpr(draw, env)}; {w} = {draw(INT_LIT)}']
        env.ints += [v, w]
        env.pool_of[v] = env.pool_of[w] = 'own'
        return lines
    if c == 16:
        # annotations are evaluated when the function is defined / the assignment runs (no 'from __future__ import annotations')
        f, v, w = env.fresh('f'), env.fresh('v'), env.fresh('w')
        env.kinds.add('annotations')
        ann = _name(draw, env, env.ints) if env.ints else 'int'
        lines = [f'def {f}(a: int, b: {ann} = 0) -> int:', '    return a + b',
                 f"{v} = (1 if {f}.__annotations__['a'] is int else 0) + (2 if isinstance({f}.__annotations__['b'], (int, type)) else 0)",
                 f'{w}: {iexpr(draw, env, 2)} = {draw(INT_LIT)}']
        env.funcs.append(f)
        env.ints += [v, w]
        env.pool_of[f] = env.pool_of[v] = env.pool_of[w] = 'own'
        return lines
    if c == 17:
        c = draw(st.integers(0, 15))
    if c <= 1:
        # plain assignment, sometimes shadowing a config key / symbol / builtin name
        shadow = [n for n in env.ints if env.pool_of.get(n) in ('config', 'symbol')] + [b for b in SHADOWABLE]
        if shadow and draw(st.integers(0, 3)) == 0:
            v = shadow[draw(st.integers(0, len(shadow) - 1))]
            env.kinds.add('own-shadows-' + env.pool_of.get(v, 'builtin'))
        else:
            v = env.fresh('v')
        ex = iexpr(draw, env)
        if v in SHADOWABLE:
            env.shadowed.add(v)
        if v not in env.ints:
            env.ints.append(v)
        env.pool_of[v] = 'own'
        return [f'{v} = {ex}']
    if c == 2:
        f = env.fresh('f')
        env.kinds.add('def')
        d = iexpr(draw, env)
        body = iexpr(draw, env, 1, ('a', 'b', 't'))
        lines = [f'def {f}(a, b={d}):', '    t = a + b', f'    return {body}']
        env.funcs.append(f)
        env.pool_of[f] = 'own'
        return lines
    if c == 3:
        mk, g = env.fresh('mk'), env.fresh('g')
        env.kinds.add('closure')
        body = iexpr(draw, env, 1, ('x', 'k'))
        lines = [f'def {mk}(k):', '    def inner(x):', f'        return {body}', '    return inner', f'{g} = {mk}({iexpr(draw, env)})']
        env.funcs.append(g)
        env.pool_of[g] = 'own'
        return lines
    if c == 4:
        h = env.fresh('h')
        env.kinds.add('lambda')
        body = iexpr(draw, env, 1, ('x', 'y'))
        env.funcs.append(h)
        env.pool_of[h] = 'own'
        return [f'{h} = lambda x, y={draw(INT_LIT)}: {body}']
    if c == 5 and env.lists:
        w = env.fresh('w')
        env.kinds.add('comprehension')
        ln = _name(draw, env, env.lists)
        body = iexpr(draw, env, 1, ('e',))
        cond = cexpr(draw, env, 1, ('e',))
        env.lists.append(w)
        env.pool_of[w] = 'own'
        return [f'{w} = [{body} for e in {ln} if {cond}]']
    if c == 6:
        v = env.fresh('v')
        env.kinds.add('if')
        lines = [f'if {cexpr(draw, env)}:', f'    {v} = {iexpr(draw, env)}', f'elif {cexpr(draw, env)}:', f'    {v} = {iexpr(draw, env)}',
                 'else:', f'    {v} = {iexpr(draw, env)}']
        env.ints.append(v)
        env.pool_of[v] = 'own'
        return lines
    if c == 7:
        acc = env.fresh('acc')
        env.kinds.add('for')
        lines = [f'{acc} = 0', f'for i in range({draw(st.integers(0, 5))}):', f'    if i == {draw(st.integers(0, 6))}:', '        break',
                 f'    {acc} = {acc} + i * {iexpr(draw, env, 2, ("i",))}', 'else:', f'    {acc} = {acc} + {iexpr(draw, env, 2)}']
        env.ints.append(acc)
        env.pool_of[acc] = 'own'
        return lines
    if c == 8:
        n, acc = env.fresh('n'), env.fresh('acc')
        env.kinds.add('while')
        lines = [f'{n} = {draw(st.integers(0, 4))}', f'{acc} = 0', f'while {n} > 0:', f'    {n} = {n} - 1',
                 f'    {acc} = {acc} + {iexpr(draw, env, 2)}', f'    if {acc} > 50:', '        break']
        env.ints += [n, acc]
        env.pool_of[n] = env.pool_of[acc] = 'own'
        return lines
    if c == 9:
        v, u = env.fresh('v'), env.fresh('u')
        env.kinds.add('try')
        lines = ['try:', f'    {v} = {iexpr(draw, env, 1)} // {iexpr(draw, env, 2)}', 'except ZeroDivisionError:', f'    {v} = {iexpr(draw, env, 2)}',
                 'else:', f'    {v} = {v} + 1', 'finally:', f'    {u} = {iexpr(draw, env, 2)}']
        env.ints += [v, u]
        env.pool_of[v] = env.pool_of[u] = 'own'
        return lines
    if c == 10:
        v = env.fresh('v')
        env.kinds.add('with')
        lines = ['import contextlib', f'{v} = {draw(INT_LIT)}', 'with contextlib.suppress(ZeroDivisionError):',
                 f'    {v} = {iexpr(draw, env, 1)} // {iexpr(draw, env, 2)}', f'    {v} = {v} + {iexpr(draw, env, 2)}']
        env.ints.append(v)
        env.pool_of[v] = 'own'
        return lines
    if c == 11:
        v = env.fresh('v')
        env.kinds.add('import')
        if draw(st.booleans()):
            lines = ['import math', f'{v} = math.floor(({iexpr(draw, env, 1)}) / 2)']
        else:
            lines = ['from math import gcd', f'{v} = gcd({iexpr(draw, env, 1)}, {iexpr(draw, env, 1)})']
        env.ints.append(v)
        env.pool_of[v] = 'own'
        return lines
    if c == 12:
        k, v = env.fresh('K'), env.fresh('v')
        env.kinds.add('class')
        lines = [f'class {k}:', f'    attr = {iexpr(draw, env, 1)}', '    def m(self, x):', f'        return x + self.attr + {iexpr(draw, env, 2, ("x",))}',
                 f'{v} = {k}().m({iexpr(draw, env, 1)})']
        env.ints.append(v)
        env.pool_of[v] = 'own'
        return lines
    if c == 13:
        own = [n for n in env.ints if env.pool_of.get(n) == 'own']
        if own:
            tgt = own[draw(st.integers(0, len(own) - 1))]
            b = env.fresh('bump')
            env.kinds.add('global')
            return [f'def {b}():', f'    global {tgt}', f'    {tgt} = {tgt} + {iexpr(draw, env, 2)}', f'{b}()']
    if c == 14 and draw(st.integers(0, 3)) == 0:
        # padding: > 255 names and constants in one code object (EXTENDED_ARG)
        env.kinds.add('extended-arg')
        base = env.n + 1000
        lines = [f'p{base + i} = {300 + i}' for i in range(270)]
        env.n += 1
        keep = f'p{base + 269}'
        env.ints.append(keep)
        env.pool_of[keep] = 'own'
        return lines
    v = env.fresh('v')
    env.ints.append(v)
    env.pool_of[v] = 'own'
    return [f'{v} = {iexpr(draw, env)}']


@st.composite
def program(draw):
    """-> dict(cfg=[[key, spec]], symbols={name: spec}, lines=[...], kinds=[...], pools=[...])
    spec: ['int', n] | ['list', [..]] | ['eval', 'source']   symbols additionally ['func', 'double'|'inc']"""
    ncfg = draw(st.integers(0, 4))
    cfg = []
    names_int, names_list, funcs, shadowed = [], [], [], set()
    pool_of = {}
    cfg_names = draw(st.lists(st.sampled_from(['c0', 'c1', 'c2', 'cl0', 'cl1', 'min', 'hash', 'x', 'k']), min_size=ncfg, max_size=ncfg, unique=True))
    for nm in cfg_names:
        if nm.startswith('cl'):
            cfg.append([nm, ['list', draw(st.lists(st.integers(0, 9), max_size=4))]])
            names_list.append(nm)
        elif draw(st.integers(0, 4)) == 0:
            cfg.append([nm, ['eval', f'{draw(INT_LIT)} + {draw(INT_LIT)}']])
            names_int.append(nm)
        else:
            cfg.append([nm, ['int', draw(st.integers(-3, 9))]])
            names_int.append(nm)
        pool_of[nm] = 'config'
        if nm in SHADOWABLE:
            shadowed.add(nm)
    symbols = {}
    nsym = draw(st.integers(0, 3))
    for nm in draw(st.lists(st.sampled_from(['s0', 's1', 'sl0', 'c0', 'cl0', 'abs', 'sf', 'x']), min_size=nsym, max_size=nsym, unique=True)):
        if nm in ('sl0', 'cl0'):
            symbols[nm] = ['list', draw(st.lists(st.integers(10, 19), max_size=3))]
            if nm not in names_list:
                names_list.append(nm)
            if nm in names_int:
                names_int.remove(nm)
        elif nm == 'sf':
            symbols[nm] = ['func', draw(st.sampled_from(['double', 'inc']))]
            funcs.append(nm)
        else:
            symbols[nm] = ['int', draw(st.integers(20, 29))]
            if nm not in names_int:
                names_int.append(nm)
            if nm in names_list:
                names_list.remove(nm)
        pool_of[nm] = 'symbol'
        if nm in SHADOWABLE:
            shadowed.add(nm)
    env = Env(names_int, names_list, funcs, shadowed)
    env.pool_of = pool_of
    lines = []
    both = [nm for nm in names_int if nm in symbols and any(k == nm for k, _ in cfg)]
    if both and draw(st.integers(0, 5)) == 0:
        # a name that is a symbol *and* a config entry, mentioned by nested code only (a function body, a lambda, a comprehension):
        # the order of the pools must not depend on where in the code the name stands
        env.kinds.add('nested-only-name')
        env.pools_used.add('symbol')
        nm = both[draw(st.integers(0, len(both) - 1))]
        k = draw(st.integers(0, 2))
        if k == 0:
            lines = ['def g0():', f'    return {nm} + {draw(INT_LIT)}']
            last = 'g0()'
        elif k == 1:
            last = f'(lambda: {nm} * 2)()'
        else:
            last = f'sum([{nm} for _ in range(2)])'
        return {'cfg': cfg, 'symbols': symbols, 'lines': lines + [last], 'kinds': sorted(env.kinds), 'pools': sorted(env.pools_used), 'shared_last_line': False}
    for _ in range(draw(st.sampled_from([0, 0, 1, 1, 2, 3, 4, 6]))):
        lines += statement(draw, env)
    last = iexpr(draw, env, 0)
    if draw(st.integers(0, 7)) == 0:
        # the final expression shares its line with a statement
        env.kinds.add('semicolon')
        # (the final expression has an effect of its own: it must run exactly once)
        lines.append(f'zt = [{last}]')
        last = "(zt.append(0) or len(zt)) + zt[0] + len(';')"
        shared_line = True
    else:
        shared_line = False
    lines.append(last)
    return {'cfg': cfg, 'symbols': symbols, 'lines': lines, 'kinds': sorted(env.kinds), 'pools': sorted(env.pools_used), 'shared_last_line': shared_line}


FSTR_TEXT = st.text(alphabet='abc XYZ019?=.-_;', min_size=0, max_size=6)


@st.composite
def fstring(draw, int_names, list_names):
    """-> dict(spelling, body)   body: f-string content without prefix and quotes."""
    parts = []
    own_quote = False
    quote = draw(st.sampled_from(["'", '"']))
    n = draw(st.integers(1, 3))
    for i in range(n):
        parts.append(draw(FSTR_TEXT))
        names = list(int_names)
        ex = names[draw(st.integers(0, len(names) - 1))] if names and draw(st.booleans()) else str(draw(INT_LIT))
        if draw(st.integers(0, 2)) == 0:
            ex = f'{ex} * 2 + {draw(INT_LIT)}'
        if list_names and draw(st.integers(0, 3)) == 0:
            ex = f'len({list_names[0]})'
        conv = draw(st.sampled_from(['', '', '!r', ':>4', ':03d', '!s']))
        if i == 0 and draw(st.integers(0, 5)) == 0:
            # a string literal inside the replacement field that uses the quote of the f-string itself (legal since python 3.12)
            ex = f'len({quote}ab{quote}) + {ex}'
            own_quote = True
        parts.append('{' + ex + conv + '}')
    parts.append(draw(FSTR_TEXT))
    if draw(st.integers(0, 3)) == 0:
        # escape sequences: the text is the content of a python f-string literal in every spelling
        parts.insert(draw(st.integers(0, len(parts) - 1)), draw(st.sampled_from(['\\t', '\\\\', '\\x41', '\\u00e9', '\\n', 'C:\\\\d'])))
    body = 'T' + ''.join(parts)     # starts with a letter so that every spelling is a plain yaml scalar
    if draw(st.integers(0, 3)) == 0:
        body += " it's" if quote == '"' else ' say "x"'
    body = body.rstrip() + '.'
    spelling = draw(st.sampled_from(['f-plain', 'f-plain', 'implicit', 'implicit', 'dq', 'sq', 'bare']))
    if own_quote and spelling in ('dq', 'sq', 'bare'):
        spelling = 'implicit'       # (the spellings without the f'..' wrapper are wrapped - and their quotes escaped - by the library)
    return {'spelling': spelling, 'quote': quote, 'body': body, 'own_quote': own_quote}
