"""Tagged-document AST, YAML renderer (tagged / tag-erased), plain value.

A node is a JSON-serialisable dict:

  {'t': 'map', 'items': [[key, node], ...], 'flow': bool}
  {'t': 'seq', 'items': [node, ...],        'flow': bool}
  {'t': 'sc',  'v': value, 'q': 'plain'|'single'|'double'|'alt'}     value: None/bool/int/float/str
  {'t': 'empty'}                                                      value-less node (YAML null)
  {'t': 'raw', 'text': str, 'q': ...}                                 body of a special tag (!xref path, !eval code ...)

optional on every node:
  'prio': 1|-1   'del': True|False   'new': True|False   'unsafe': True   'md': {str: scalar|list}
  'tag': '!xref' | '!call:mod.f' | ...   (special node kind; merge-control flags are then attached through {{..}})
  'mdstyle': 'short'|'braces'|'hex'      how flags are written when there is a choice
Keys are int / float / str python values.
"""
import functools
import pickle
import re

import yaml

from .core import HarnessError

FLAG_KEYS = ('prio', 'del', 'new', 'unsafe', 'md')
_SHORT = {('prio', 1): '!force', ('prio', -1): '!weak', ('del', True): '!del', ('del', False): '!merge',
          ('new', True): '!new', ('new', False): '!notnew', ('unsafe', True): '!unsafe'}
# tags that have a ':'-suffix (metadata) constructor in awesomeyaml/yaml.py
MD_CAPABLE = ('!metadata', '!xref', '!ref', '!bind:', '!call:', '!eval', '!required', '!null', '!path:', '!clear', '!extend', '!import', '!rec')


# ------------------------------------------------------------------------------------------ constructors

def sc(v, q='plain', **fl):
    return {'t': 'sc', 'v': v, 'q': q, **fl}


def mp(items, flow=False, **fl):
    return {'t': 'map', 'items': [[k, v] for k, v in items], 'flow': flow, **fl}


def sq(items, flow=False, **fl):
    return {'t': 'seq', 'items': list(items), 'flow': flow, **fl}


def empty(**fl):
    return {'t': 'empty', **fl}


def raw(text, tag, q='plain', **fl):
    return {'t': 'raw', 'text': text, 'q': q, 'tag': tag, **fl}


def ts(text, **fl):
    """A plain scalar written verbatim which yaml resolves to something json cannot hold (timestamps: date / datetime)."""
    return {'t': 'raw', 'text': text, 'q': 'verbatim', 'res': True, **fl}


TIMESTAMPS = ['2001-01-02', '2024-02-29', '2001-12-14t21:59:43.10-05:00', '2001-12-14 21:59:43.10', '2002-12-14 21:59:43Z', '1999-1-1 0:0:0']


def from_plain(v):
    """Plain python data -> untagged AST."""
    if isinstance(v, dict):
        return mp([(k, from_plain(x)) for k, x in v.items()])
    if isinstance(v, (list, tuple)):
        return sq([from_plain(x) for x in v])
    return sc(v)


# ------------------------------------------------------------------------------------------ flags -> tag text

def node_flags(n):
    """Metadata dict exactly as awesomeyaml would receive it through {{..}} / :hex."""
    md = {}
    if n.get('prio') is not None:
        md['priority'] = n['prio']
    if n.get('del') is not None:
        md['delete'] = n['del']
    if n.get('new') is not None:
        md['allow_new'] = n['new']
    if n.get('unsafe'):
        md['safe'] = False
    for k, v in (n.get('md') or {}).items():
        md[k] = v
    return md


def has_flags(n):
    return any(n.get(k) not in (None, False, {}) or (k == 'del' and n.get(k) is False) or (k == 'new' and n.get(k) is False)
               for k in FLAG_KEYS)


def _md_literal(md):
    return '{{ ' + ', '.join(f'{k!r}: {v!r}' for k, v in md.items()) + ' }}'


def tag_text(n):
    """The tag (possibly with metadata suffix) written in front of node n, or ''."""
    md = node_flags(n)
    special = n.get('tag')
    style = n.get('mdstyle', 'short')
    if special:
        if not md:
            return special
        if not special.startswith(MD_CAPABLE):
            raise HarnessError(f'tag {special} cannot carry metadata')
        if style == 'hex':
            return special + ':' + pickle.dumps(md).hex()
        return special + _md_literal(md)
    if not md:
        return ''
    if len(md) == 1 and style == 'short' and not n.get('md'):
        for fk in ('prio', 'del', 'new', 'unsafe'):
            if n.get(fk) is not None and n.get(fk) is not False or (fk in ('del', 'new') and n.get(fk) is False):
                return _SHORT[(fk, n[fk])]
    if style == 'hex':
        return '!metadata:' + pickle.dumps(md).hex()
    return '!metadata' + _md_literal(md)


# ------------------------------------------------------------------------------------------ scalars

def _dq(s):
    out = ['"']
    for ch in s:
        o = ord(ch)
        if ch == '\\':
            out.append('\\\\')
        elif ch == '"':
            out.append('\\"')
        elif ch == '\n':
            out.append('\\n')
        elif ch == '\t':
            out.append('\\t')
        elif o < 0x20 or o == 0x7f:
            out.append('\\x%02x' % o)
        else:
            out.append(ch)
    out.append('"')
    return ''.join(out)


def _float_text(v):
    if v != v:
        return '.nan'
    if v in (float('inf'), float('-inf')):
        return '.inf' if v > 0 else '-.inf'
    r = repr(v)
    if 'e' in r or 'E' in r:
        m, e = r.lower().split('e')
        if '.' not in m:
            m += '.0'
        if e[0] not in '+-':
            e = '+' + e
        r = m + 'e' + e
    return r


_ALT = {True: 'yes', False: 'off', None: '~'}


_FSTR_LIKE = re.compile(r"^\s*f(['\"]).*\1\s*$")


def block_ok(v):
    """Can the string be written as a literal block scalar (|-) without any indentation / chomping subtleties?"""
    if not isinstance(v, str) or not v:
        return False
    lines = v.rstrip('\n').split('\n')       # trailing line breaks are expressed by the chomping indicator (see block_lines)
    return all(ln and ln == ln.strip() and all(0x20 <= ord(c) < 0x7f or ord(c) > 0xa0 for c in ln) for ln in lines) and not v.startswith('#')


def block_lines(v):
    """-> (header, lines) of a literal block scalar holding v: '|-' strip, '|' clip (one final line break), '|+' keep (several)."""
    body = v.rstrip('\n')
    k = len(v) - len(body)
    return ('|-' if k == 0 else '|' if k == 1 else '|+'), body.split('\n') + [''] * max(0, k - 1)


def _candidates(v, q):
    """Texts to try for scalar v, preferred style first."""
    if v is None:
        return ['~', 'null'] if q == 'alt' else ['null', '~']
    if isinstance(v, bool):
        base = ['true', 'True'] if v else ['false', 'False']
        return ([_ALT[v]] + base) if q == 'alt' else base
    if isinstance(v, int):
        alt = [hex(v)] if v >= 0 else []
        return (alt + [str(v)]) if q == 'alt' else [str(v)]
    if isinstance(v, float):
        return [_float_text(v)]
    if isinstance(v, str):
        sgl = "'" + v.replace("'", "''") + "'"
        dbl = _dq(v)
        simple = all(0x20 <= ord(c) < 0x7f or ord(c) > 0xa0 for c in v)
        order = {'plain': [v, sgl, dbl], 'single': [sgl, dbl], 'double': [dbl], 'alt': [dbl]}.get(q, [v, sgl, dbl])
        if not simple:
            order = [dbl]
        if _FSTR_LIKE.match(v):
            # an unquoted scalar of this shape is an (implicit) f-string for awesomeyaml: an ordinary string must be quoted
            order = [x for x in order if x != v]
        return order
    raise HarnessError(f'unsupported scalar {v!r}')


def _same(a, b):
    if type(a) is not type(b):
        return False
    if isinstance(a, float):
        return repr(a) == repr(b)
    return a == b


_scalar_cache = {}


def scalar_text(v, q='plain', as_key=False):
    ck = (type(v).__name__, repr(v), q, as_key)
    hit = _scalar_cache.get(ck)
    if hit is not None:
        return hit
    for txt in _candidates(v, q):
        if txt == '' or '\n' in txt:
            continue
        try:
            if as_key:
                got1 = yaml.safe_load('{' + txt + ': 1}')
                got2 = yaml.safe_load(txt + ': 1\n')
                ok = isinstance(got1, dict) and isinstance(got2, dict) and len(got1) == 1 and len(got2) == 1 and \
                    _same(next(iter(got1)), v) and _same(next(iter(got2)), v)
            else:
                got1 = yaml.safe_load('[' + txt + ' , 1]')
                got2 = yaml.safe_load('k: ' + txt + '\n')
                ok = isinstance(got1, list) and len(got1) == 2 and _same(got1[0], v) and \
                    isinstance(got2, dict) and _same(got2.get('k'), v)
        except Exception:      # noqa: PyYAML raises ValueError for e.g. the plain scalar 0b_ - such a text must be quoted
            ok = False
        if ok:
            if len(_scalar_cache) < 500000:
                _scalar_cache[ck] = txt
            return txt
    raise HarnessError(f'cannot render scalar {v!r} (style {q}, key={as_key})')


def key_text(k, v):
    """Text of a mapping key; the key '<<' in front of an alias (or of the anchored mapping the alias stands for) is yaml's merge key."""
    if k == '<<' and (v['t'] == 'alias' or (v['t'] == 'map' and v.get('anchor'))):
        return '<<'
    return scalar_text(k, 'plain', as_key=True)


# ------------------------------------------------------------------------------------------ renderer

def _has_verbatim(n):
    if n['t'] == 'raw':
        return n.get('q') == 'verbatim'
    if n['t'] == 'map':
        return any(_has_verbatim(v) for _, v in n['items'])
    if n['t'] == 'seq':
        return any(_has_verbatim(v) for v in n['items'])
    return False


class Renderer:
    def __init__(self, erase=False):
        self.erase = erase

    def tag(self, n):
        anchor = ('&' + n['anchor']) if n.get('anchor') else ''
        if self.erase:
            return anchor
        return ' '.join(x for x in (anchor, tag_text(n)) if x)

    def is_inline(self, n):
        t = n['t']
        if t in ('sc', 'empty', 'raw', 'alias'):
            return True
        if not n['items']:
            return True
        # texts that must stay unquoted and contain flow indicators (f-strings) cannot live inside a flow collection
        return bool(n.get('flow')) and not _has_verbatim(n)

    def inline(self, n):
        """Text of node n in flow/inline form (without the tag)."""
        t = n['t']
        if t == 'sc':
            return scalar_text(n['v'], n.get('q', 'plain'))
        if t == 'empty':
            return ''
        if t == 'alias':
            return '*' + n['name']
        if t == 'raw':
            return self.raw_text(n)
        if t == 'map':
            parts = []
            for k, v in n['items']:
                parts.append(key_text(k, v) + ': ' + self.tagged_inline(v))
            return '{' + ', '.join(parts) + '}'
        if t == 'seq':
            return '[' + ', '.join(self.tagged_inline(v) for v in n['items']) + ']'
        raise HarnessError(t)

    def raw_text(self, n):
        text = n['text']
        q = n.get('q', 'plain')
        if q == 'block':
            return _dq(text)        # a literal block cannot be written inside a flow collection
        if q == 'verbatim':
            return text
        if q == 'plain' and text and '\n' not in text and text == text.strip() and not any(c in text for c in '#:{}[],&*!|>\'"%@`') \
                and yaml.safe_load('[' + text + ' , 1]') == [text, 1]:
            return text
        if q == 'single' and '\n' not in text and all(0x20 <= ord(c) < 0x7f for c in text):
            return "'" + text.replace("'", "''") + "'"
        return _dq(text)

    def tagged_inline(self, n):
        tg = self.tag(n)
        body = self.inline(n)
        if tg and body:
            return tg + ' ' + body
        if tg:
            return tg + ' '
        return body if body else 'null'      # an untagged value-less entry cannot be written in flow style

    def value(self, n, indent):
        """Text that follows 'key:' or '-' for node n (starts with ' ' or newline)."""
        tg = self.tag(n)
        if n['t'] == 'raw' and n.get('q') == 'block' and not self.erase:
            lines = n['text'].split('\n')
            pad = ' ' * (indent + 2)
            return ' ' + (tg + ' ' if tg else '') + '|-\n' + '\n'.join(pad + ln if ln else '' for ln in lines)
        if n['t'] == 'sc' and n.get('q') == 'block' and block_ok(n['v']):
            pad = ' ' * (indent + 2)
            head, lines = block_lines(n['v'])
            return ' ' + (tg + ' ' if tg else '') + head + '\n' + '\n'.join(pad + ln if ln else '' for ln in lines)
        if self.is_inline(n):
            body = self.inline(n)
            s = ' '.join(x for x in (tg, body) if x)
            return (' ' + s) if s else ''
        head = (' ' + tg) if tg else ''
        return head + '\n' + self.block(n, indent + 2)

    def block(self, n, indent):
        pad = ' ' * indent
        lines = []
        if n['t'] == 'map':
            for k, v in n['items']:
                lines.append(pad + key_text(k, v) + ':' + self.value(v, indent))
        else:
            for v in n['items']:
                lines.append(pad + '-' + self.value(v, indent))
        return '\n'.join(lines)

    def document(self, root):
        tg = self.tag(root)
        if self.is_inline(root):
            body = self.inline(root)
            return '--- ' + ' '.join(x for x in (tg, body) if x) + '\n'
        return '---' + ((' ' + tg) if tg else '') + '\n' + self.block(root, 0) + '\n'


def render(root, erase=False):
    return Renderer(erase=erase).document(root)


def render_stream(roots, erase=False):
    return ''.join(render(r, erase) for r in roots)


# ------------------------------------------------------------------------------------------ plain value

def plain_resolved(root):
    """Plain value with yaml aliases replaced by the content of their anchors."""
    anchors = {n['anchor']: n for _, n in walk(root) if n.get('anchor')}

    def rec(n):
        if n['t'] == 'alias':
            return rec(anchors[n['name']])
        if n['t'] == 'map':
            return {k: rec(v) for k, v in n['items']}
        if n['t'] == 'seq':
            return [rec(v) for v in n['items']]
        return plain(n)
    return rec(root)


def plain(n):
    t = n['t']
    if t == 'map':
        return {k: plain(v) for k, v in n['items']}
    if t == 'seq':
        return [plain(v) for v in n['items']]
    if t == 'sc':
        return n['v']
    if t == 'empty':
        return None
    if t == 'raw':
        return yaml.safe_load(n['text']) if n.get('res') else n['text']
    if t == 'alias':
        return None
    raise HarnessError(t)


def walk(n, path=()):
    """Yield (path, node) for every node, pre-order."""
    yield path, n
    if n['t'] == 'map':
        for k, v in n['items']:
            yield from walk(v, path + (k,))
    elif n['t'] == 'seq':
        for i, v in enumerate(n['items']):
            yield from walk(v, path + (i,))


def strip_flags(n, keep=()):
    """Deep copy without merge-control flags (except those named in keep)."""
    out = {k: v for k, v in n.items() if k not in FLAG_KEYS and k != 'mdstyle' or k in keep}
    if n['t'] == 'map':
        out['items'] = [[k, strip_flags(v, keep)] for k, v in n['items']]
    elif n['t'] == 'seq':
        out['items'] = [strip_flags(v, keep) for v in n['items']]
    return out


def depth(n):
    if n['t'] in ('map', 'seq') and n['items']:
        kids = [v for _, v in n['items']] if n['t'] == 'map' else n['items']
        return 1 + max(depth(k) for k in kids)
    return 0


def alias_context_conflict(doc, shared_only=False):
    """True iff some anchored node that stays one object (anything but a plain container) is adopted (at its definition or through an
    alias, also inside other aliased subtrees) by parents that hand down different inherited flags.  One node object can hold one set of inherited flags only, so what such a document
    means is not defined - the original tree itself then depends on which parent adopted the node last."""
    defs = {n['anchor']: n for _, n in walk(doc) if n.get('anchor')}
    seen = {}

    def child_ctx(n, ctx):
        d, nw, us, pr = ctx
        if n.get('del') is not None:
            d = n['del']
        elif n['t'] == 'seq':
            d = True
        if n.get('new') is not None:
            nw = n['new']
        if n.get('unsafe'):
            us = True
        if n.get('prio') is not None:
            pr = n['prio']
        return (d, nw, us, pr)

    def rec(n, ctx, depth=0):
        if depth > 12:
            return
        if n['t'] == 'alias':
            seen.setdefault(n['name'], set()).add(ctx)
            if n['name'] in defs:
                body = defs[n['name']]
                inner(body, ctx, depth + 1)
            return
        if n.get('anchor'):
            seen.setdefault(n['anchor'], set()).add(ctx)
        inner(n, ctx, depth)

    def inner(n, ctx, depth):
        c = child_ctx(n, ctx)
        if n['t'] == 'map':
            for _, v in n['items']:
                rec(v, c, depth + 1)
        elif n['t'] == 'seq':
            for v in n['items']:
                rec(v, c, depth + 1)
    rec(doc, (None, None, None, None))

    def shared(name):
        # plain containers (with or without merge-control flags) get a container of their own at every alias; everything else
        # (function / path nodes, scalars, dynamic nodes) is one node object at all its places
        n = defs.get(name)
        return n is None or n['t'] not in ('map', 'seq') or bool(n.get('tag'))
    return any(len(v) > 1 for k, v in seen.items() if shared(k) or not shared_only)
