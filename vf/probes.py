"""Root-cause probes used only to attribute violations to *open known findings* (never to decide a property).

They wrap namespaced methods of the node classes from the outside.  If the wrapped names disappear the probe
reports nothing, and the violation is then reported as an ordinary VIOLATION (fail-safe direction)."""

counters = {'prefilter_drops': 0, 'partial_list_prune': 0, 'list_index_clipped': 0, 'colliding_index_keys': 0, 'list_onto_surviving_mapping': 0}
installed = {'collision': False}
_installed = False


def install():
    global _installed
    if _installed:
        return
    _installed = True
    try:
        from awesomeyaml.nodes.composed import ComposedNode
        ns = ComposedNode.__dict__['ayns']
        orig = ns._names['filter_nodes']

        def filter_nodes(self, condition, prefix=None, removed=None, **kw):
            if getattr(condition, '__name__', '') == 'keep_if_exists':
                # (an element dropped from a list may leave a hole behind until the merge is over: not counted as a node)
                real = lambda: sum(1 for n in self.ayns.nodes(allow_duplicates=True) if not n.__dict__.get('_is_hole'))
                before = real()
                ret = orig(self, condition, prefix=prefix, removed=removed, **kw)
                after = real()
                if after != before:
                    counters['prefilter_drops'] += 1
                return ret
            if getattr(condition, '__name__', '') == 'maybe_keep':
                # pruning of the older tree under a deleting newer node: did a LIST lose some but not all of its elements?
                # (the survivors then move to lower indices before the newer elements are merged index-wise)
                lists = [n for n in self.ayns.nodes(include_self=True, allow_duplicates=True) if isinstance(n, list)]
                full = lambda n: sum(1 for x in list.__iter__(n) if not x.__dict__.get('_is_hole'))
                before = {id(n): full(n) for n in lists}
                ret = orig(self, condition, prefix=prefix, removed=removed, **kw)
                if any(0 < full(n) < before[id(n)] for n in lists):
                    counters['partial_list_prune'] += 1
                return ret
            return orig(self, condition, prefix=prefix, removed=removed, **kw)
        ns._names['filter_nodes'] = filter_nodes
    except Exception:
        pass
    try:
        # a child written to a list at an index beyond its end is put at the end instead (non-strict set_child): during a merge
        # this only happens when the older list has been pruned after the keys of the mapping merged onto it were validated
        from awesomeyaml.nodes.list import ConfigList
        orig_set = ConfigList._set

        def _set(self, index, value, strict=True):
            if not strict and isinstance(index, int) and not isinstance(index, bool) and (index > len(self) or -index > len(self)):
                counters['list_index_clipped'] += 1
            return orig_set(self, index, value, strict=strict)
        ConfigList._set = _set
    except Exception:
        pass
    try:
        # a mapping merged onto a list in which two keys spell one element (1 and -2 on a list of three): the document writes that
        # element twice, so the order of its keys matters by construction (used to *skip* the key-permutation relation, C15)
        from awesomeyaml.nodes.list import ConfigList
        lns = ConfigList.__dict__['ayns']
        orig_merge = lns._names['on_merge_impl']

        def on_merge_impl(self, prefix, other):
            if isinstance(other, dict):
                n, idx = len(self), []
                for key in other.ayns.children_names():
                    k = key.ayns.native_value if hasattr(key, 'ayns') else key
                    if isinstance(k, int) and not isinstance(k, bool) and -n <= k < n:
                        idx.append(k % n)
                if len(idx) != len(set(idx)):
                    counters['colliding_index_keys'] += 1
            return orig_merge(self, prefix, other)
        lns._names['on_merge_impl'] = on_merge_impl
        installed['collision'] = True
    except Exception:
        pass
    try:
        # a (deleting) list merged onto a plain mapping which keeps protected entries: the mapping stays and the elements of the list
        # are written into it under integer keys - merging the same list again meets another older value
        from awesomeyaml.nodes.composed import ComposedNode
        cns = ComposedNode.__dict__['ayns']
        orig_cmerge = cns._names['on_merge_impl']

        def c_on_merge_impl(self, path, other):
            ret = orig_cmerge(self, path, other)
            if type(self).__name__ == 'ConfigDict' and isinstance(other, list) and isinstance(ret, dict) and len(ret):
                counters['list_onto_surviving_mapping'] += 1
            return ret
        cns._names['on_merge_impl'] = c_on_merge_impl
    except Exception:
        pass
