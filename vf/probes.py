"""Root-cause probes used only to attribute violations to *open known findings* (never to decide a property).

They wrap namespaced methods of the node classes from the outside.  If the wrapped names disappear the probe
reports nothing, and the violation is then reported as an ordinary VIOLATION (fail-safe direction)."""

counters = {'prefilter_drops': 0}
_installed = False


def install():
    global _installed
    if _installed:
        return
    _installed = True
    try:
        from awesomeyaml.nodes.composed import ComposedNode
        ns = ComposedNode.__dict__['ayns']
        orig = ns._names['filter_nodes']

        def filter_nodes(self, condition, prefix=None, removed=None):
            if getattr(condition, '__name__', '') == 'keep_if_exists':
                before = sum(1 for _ in self.ayns.nodes(allow_duplicates=True))
                ret = orig(self, condition, prefix=prefix, removed=removed)
                after = sum(1 for _ in self.ayns.nodes(allow_duplicates=True))
                if after != before:
                    counters['prefilter_drops'] += 1
                return ret
            return orig(self, condition, prefix=prefix, removed=removed)
        ns._names['filter_nodes'] = filter_nodes
    except Exception:
        pass
